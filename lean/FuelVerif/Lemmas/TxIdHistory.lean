/- C03: the cached id after a precompute, for an object that may already carry a cache, and after any history of edits and
precomputes (order of effects of `precompute` from the regenerated table, Lemmas/OffsetsCached.lean `precompute_order`). -/
import FuelVerif.Lemmas.TxId
import FuelVerif.Lemmas.OffsetsCached
namespace FuelVerif.TxId
open FuelVerif FuelVerif.Canonical FuelVerif.Offsets

/-- one precompute, from ANY starting cache: the stored id is the fresh id of the content, under the chain id given -/
theorem precompute_cached_id (H : Bytes → Bytes) (chain : Nat) (t t' : Tx) (hk : t.kind.chargeable = true) (h : TxId.precompute H chain t = .ok t') :
    cachedId t' = some (freshId H chain t.kind t.val) ∧ txId H chain t' = freshId H chain t.kind t.val ∧ t'.val = t.val ∧ t'.kind = t.kind := by
  simp only [TxId.precompute] at h
  rw [precompute_eq_canon _ t hk] at h
  simp only [Tx.precomputeCanon] at h
  split at h
  · cases h
  · rename_i common hc
    cases h
    simp only [Tx.computeCommon] at hc
    split at hc
    · cases hc
    · split at hc
      · cases hc
      · split at hc
        · cases hc
        · cases hc
          simp [cachedId, txId]

/-- **obligation on the regenerated order of `Mint::precompute`**: reset, then the id, then store -/
theorem mint_precompute_order : mintSteps = [.reset, .id, .store] := by decide +kernel

theorem mint_precompute_cached_id (H : Bytes → Bytes) (chain : Nat) (t : MintTx) :
    (t.precompute H chain).cachedId = some (freshId H chain .mint t.val) ∧ (t.precompute H chain).id H chain = freshId H chain .mint t.val ∧
    (t.precompute H chain).val = t.val := by
  simp [MintTx.precompute, mint_precompute_order, MintTx.runSteps, MintTx.cachedId, MintTx.id]

/-! ### histories -/

/-- edit through the public mutators (the cache stays), or `precompute(chain_id)` -/
inductive TxOp
  | edit (v : Val)
  | precompute (chain : Nat)
  deriving Repr, Inhabited

def applyTxOp (H : Bytes → Bytes) (t : Tx) : TxOp → Except Tx.TooLarge Tx
  | .edit v => .ok { t with val := v }
  | .precompute c => TxId.precompute H c t

def runTxOps (H : Bytes → Bytes) : Tx → List TxOp → Except Tx.TooLarge Tx
  | t, [] => .ok t
  | t, op :: rest =>
    match applyTxOp H t op with
    | .error e => .error e
    | .ok t' => runTxOps H t' rest

theorem runTxOps_append (H : Bytes → Bytes) : ∀ (ops : List TxOp) (t t' : Tx) (op : TxOp), runTxOps H t (ops ++ [op]) = .ok t' →
    ∃ t1, runTxOps H t ops = .ok t1 ∧ applyTxOp H t1 op = .ok t' := by
  intro ops
  induction ops with
  | nil =>
    intro t t' op h
    simp only [List.nil_append, runTxOps] at h
    cases ha : applyTxOp H t op with
    | error e => simp [ha] at h
    | ok t1 => simp only [ha, Except.ok.injEq] at h; exact ⟨t, rfl, by rw [ha, h]⟩
  | cons o ops ih =>
    intro t t' op h
    simp only [List.cons_append, runTxOps] at h ⊢
    cases ha : applyTxOp H t o with
    | error e => simp [ha] at h
    | ok t1 => simp only [ha] at h ⊢; exact ih t1 t' op h

theorem runTxOps_kind (H : Bytes → Bytes) : ∀ (ops : List TxOp) (t t' : Tx), t.kind.chargeable = true → runTxOps H t ops = .ok t' → t'.kind = t.kind := by
  intro ops
  induction ops with
  | nil => intro t t' _ h; simp only [runTxOps, Except.ok.injEq] at h; subst h; rfl
  | cons o ops ih =>
    intro t t' hk h
    simp only [runTxOps] at h
    cases ha : applyTxOp H t o with
    | error e => simp [ha] at h
    | ok t1 =>
      simp only [ha] at h
      have k1 : t1.kind = t.kind := by
        cases o with
        | edit v => simp only [applyTxOp, Except.ok.injEq] at ha; subst ha; rfl
        | precompute c => exact (precompute_cached_id H c t t1 hk ha).2.2.2
      rw [← k1]; exact ih t1 t' (by rw [k1]; exact hk) h

/-- **after ANY sequence of edits and precomputes (any chain ids) ending with `precompute(chain)`, the cached id — and what `id()`
returns — is the fresh id of the CURRENT content under `chain`** -/
theorem cached_id_after_history (H : Bytes → Bytes) (ops : List TxOp) (chain : Nat) (t t' : Tx) (hk : t.kind.chargeable = true)
    (h : runTxOps H t (ops ++ [.precompute chain]) = .ok t') :
    cachedId t' = some (freshId H chain t'.kind t'.val) ∧ txId H chain t' = freshId H chain t'.kind t'.val := by
  obtain ⟨t1, h1, h2⟩ := runTxOps_append H ops t t' (.precompute chain) h
  have k1 := runTxOps_kind H ops t t1 hk h1
  obtain ⟨a, b, c, d⟩ := precompute_cached_id H chain t1 t' (by rw [k1]; exact hk) h2
  rw [c, d]; exact ⟨a, b⟩

/-- Mint: the same (its precompute cannot fail) -/
inductive MintOp
  | edit (v : Val)
  | precompute (chain : Nat)
  deriving Repr, Inhabited

def applyMintOp (H : Bytes → Bytes) (t : MintTx) : MintOp → MintTx
  | .edit v => { t with val := v }
  | .precompute c => t.precompute H c

theorem mint_cached_id_after_history (H : Bytes → Bytes) (ops : List MintOp) (chain : Nat) (t : MintTx) :
    let t' := (ops ++ [MintOp.precompute chain]).foldl (applyMintOp H) t
    t'.cachedId = some (freshId H chain .mint t'.val) ∧ t'.id H chain = freshId H chain .mint t'.val := by
  simp only [List.foldl_append, List.foldl_cons, List.foldl_nil, applyMintOp]
  obtain ⟨a, b, c⟩ := mint_precompute_cached_id H chain (ops.foldl (applyMintOp H) t)
  rw [c]; exact ⟨a, b⟩

end FuelVerif.TxId
