/- Helper lemmas for C21/C22/C25: the reserved-register key, the specified-success register file `specOk`,
the generic behaviour of the alu.rs helpers, and the std integer functions (`checked_pow`, `checked_ilog`,
integer roots). -/
import FuelVerif.Model.Alu
namespace FuelVerif.Alu
open FuelVerif.Gen.AluArgs

theorem writeRegKey_ok {a : Nat} (h : 16 ≤ a) : writeRegKey a = .ok a := by
  simp [writeRegKey, regWRITABLE, h]

theorem writeRegKey_err {a : Nat} (h : a < 16) : writeRegKey a = .error .ReservedRegisterNotWritable := by
  have : ¬ 16 ≤ a := by omega
  simp [writeRegKey, regWRITABLE, this]

/-- the specified successful outcome of an ALU instruction: `$of`, `$err` and the destination written,
`$pc` advanced by one instruction, every other register untouched -/
def specOk (r : Regs) (a dest of err : Nat) : Regs :=
  incPc (((r.set regOF of).set regERR err).set a dest)

theorem specOk_dest (r : Regs) (a dest of err : Nat) (ha : 16 ≤ a) : specOk r a dest of err a = dest := by
  have h1 : a ≠ 3 := by omega
  simp [specOk, incPc, Regs.set, regPC, h1]

theorem specOk_of (r : Regs) (a dest of err : Nat) (ha : 16 ≤ a) : specOk r a dest of err regOF = of := by
  have h1 : 2 ≠ a := by omega
  simp [specOk, incPc, Regs.set, regPC, regOF, regERR, h1]

theorem specOk_err (r : Regs) (a dest of err : Nat) (ha : 16 ≤ a) : specOk r a dest of err regERR = err := by
  have h1 : 8 ≠ a := by omega
  simp [specOk, incPc, Regs.set, regPC, regOF, regERR, h1]

theorem specOk_pc (r : Regs) (a dest of err : Nat) (ha : 16 ≤ a) : specOk r a dest of err regPC = satAdd (r regPC) 4 := by
  have h1 : 3 ≠ a := by omega
  simp [specOk, incPc, Regs.set, regPC, regOF, regERR, instrSize, h1]

theorem specOk_other (r : Regs) (a dest of err j : Nat) (h1 : j ≠ a) (h2 : j ≠ regOF) (h3 : j ≠ regERR) (h4 : j ≠ regPC) :
    specOk r a dest of err j = r j := by
  simp [specOk, incPc, Regs.set, h1, h2, h3, h4]

theorem satAdd_pc (pc : Nat) (h : pc + 4 < 2 ^ 64) : satAdd pc 4 = pc + 4 := by
  simp only [satAdd]; rw [if_pos h]

/-! ### generic behaviour of the alu.rs helpers for a writable destination -/

theorem aluCaptureOverflow_spec (r : Regs) (a result : Nat) (ha : 16 ≤ a) (hres : result < 2 ^ 128) :
    aluCaptureOverflow r a result =
      if result < 2 ^ 64 ∨ isWrapping (r regFLAG) = true
      then (specOk r a (result % 2 ^ 64) (result / 2 ^ 64) 0, none)
      else (r, some .ArithmeticOverflow) := by
  have h2 : result / 2 ^ 64 % 2 ^ 64 = result / 2 ^ 64 := Nat.mod_eq_of_lt (by omega)
  simp only [aluCaptureOverflow, writeRegKey_ok ha, u64Max, specOk, h2]
  by_cases hw : isWrapping (r regFLAG) = true <;> by_cases hs : result < 2 ^ 64
  · rw [if_neg (by simp [hw]), if_pos (Or.inl hs)]
  · rw [if_neg (by simp [hw]), if_pos (Or.inr hw)]
  · rw [if_neg (by omega), if_pos (Or.inl hs)]
  · rw [if_pos ⟨by omega, hw⟩, if_neg (by simp [hw, hs])]

theorem aluBooleanOverflow_spec (r : Regs) (a : Nat) (res : Nat × Bool) (ha : 16 ≤ a) :
    aluBooleanOverflow r a res =
      if res.2 = false then (specOk r a res.1 0 0, none)
      else if isWrapping (r regFLAG) = true then (specOk r a 0 1 0, none)
      else (r, some .ArithmeticOverflow) := by
  simp only [aluBooleanOverflow, writeRegKey_ok ha, specOk]
  rcases res with ⟨v, o⟩
  cases o <;> by_cases hw : isWrapping (r regFLAG) = true <;> simp [hw]

theorem aluError_spec (r : Regs) (a : Nat) (f : Option Nat) (errBool : Bool) (ha : 16 ≤ a) :
    aluError r a f errBool =
      if errBool = true then
        (if isUnsafeMath (r regFLAG) = true then (specOk r a 0 0 1, none) else (r, some .ArithmeticError))
      else match f with
        | some v => (specOk r a v 0 0, none)
        | none => ((r.set regOF 0).set regERR 0, some .HostPanic) := by
  simp only [aluError, writeRegKey_ok ha, specOk]
  cases errBool <;> cases f <;> by_cases hu : isUnsafeMath (r regFLAG) = true <;> simp [hu]

theorem aluSet_spec (r : Regs) (a v : Nat) (ha : 16 ≤ a) : aluSet r a v = (specOk r a v 0 0, none) := by
  simp only [aluSet, writeRegKey_ok ha, specOk]

theorem aluMuldiv_spec (r : Regs) (a l rh d : Nat) (ha : 16 ≤ a) :
    aluMuldiv r a l rh d =
      if (muldiv l rh d).2 = 0 ∨ isWrapping (r regFLAG) = true
      then (specOk r a (muldiv l rh d).1 (muldiv l rh d).2 0, none)
      else (r, some .ArithmeticOverflow) := by
  simp only [aluMuldiv, writeRegKey_ok ha, specOk]
  by_cases hw : isWrapping (r regFLAG) = true <;> by_cases hz : (muldiv l rh d).2 = 0 <;> simp [hw, hz]

/-! ### outcome classification shared by every helper with destination `a` -/

/-- success = the specified register file for some (dest, of, err); a VM panic leaves the registers
untouched (and is the reserved-register reason whenever `a` is reserved); a host panic needs `a` writable -/
def HelperOk (r : Regs) (a : Nat) (o : Out) : Prop :=
  (o.2 = none ∧ 16 ≤ a ∧ ∃ d f e, o.1 = specOk r a d f e) ∨
  (∃ p, o.2 = some p ∧ p ≠ .HostPanic ∧ o.1 = r ∧ (a < 16 → p = .ReservedRegisterNotWritable)) ∨
  (o.2 = some .HostPanic ∧ 16 ≤ a)

theorem writeRegKey_cases (a : Nat) :
    (16 ≤ a ∧ writeRegKey a = .ok a) ∨ (a < 16 ∧ writeRegKey a = .error .ReservedRegisterNotWritable) := by
  by_cases h : 16 ≤ a
  · exact Or.inl ⟨h, writeRegKey_ok h⟩
  · exact Or.inr ⟨by omega, writeRegKey_err (by omega)⟩

theorem helperOk_capture (r : Regs) (a res : Nat) : HelperOk r a (aluCaptureOverflow r a res) := by
  rcases writeRegKey_cases a with ⟨ha, hk⟩ | ⟨ha, hk⟩
  · unfold aluCaptureOverflow; rw [hk]; simp only []
    split
    · exact Or.inr (Or.inl ⟨_, rfl, by decide, rfl, by omega⟩)
    · exact Or.inl ⟨rfl, ha, _, _, _, rfl⟩
  · unfold aluCaptureOverflow; rw [hk]
    exact Or.inr (Or.inl ⟨_, rfl, by decide, rfl, fun _ => rfl⟩)

theorem helperOk_boolean (r : Regs) (a : Nat) (res : Nat × Bool) : HelperOk r a (aluBooleanOverflow r a res) := by
  rcases writeRegKey_cases a with ⟨ha, hk⟩ | ⟨ha, hk⟩
  · unfold aluBooleanOverflow; rw [hk]; simp only []
    split
    · exact Or.inr (Or.inl ⟨_, rfl, by decide, rfl, by omega⟩)
    · exact Or.inl ⟨rfl, ha, _, _, _, rfl⟩
  · unfold aluBooleanOverflow; rw [hk]
    exact Or.inr (Or.inl ⟨_, rfl, by decide, rfl, fun _ => rfl⟩)

theorem helperOk_error (r : Regs) (a : Nat) (f : Option Nat) (e : Bool) : HelperOk r a (aluError r a f e) := by
  rcases writeRegKey_cases a with ⟨ha, hk⟩ | ⟨ha, hk⟩
  · rw [aluError_spec r a f e ha]
    cases e <;> cases f <;> by_cases hu : isUnsafeMath (r regFLAG) = true <;> simp [hu, HelperOk, ha]
    all_goals first | exact ⟨_, _, _, rfl⟩ | omega
  · unfold aluError; rw [hk]
    exact Or.inr (Or.inl ⟨_, rfl, by decide, rfl, fun _ => rfl⟩)

theorem helperOk_set (r : Regs) (a v : Nat) : HelperOk r a (aluSet r a v) := by
  rcases writeRegKey_cases a with ⟨ha, hk⟩ | ⟨ha, hk⟩
  · rw [aluSet_spec r a v ha]; exact Or.inl ⟨rfl, ha, _, _, _, rfl⟩
  · unfold aluSet; rw [hk]
    exact Or.inr (Or.inl ⟨_, rfl, by decide, rfl, fun _ => rfl⟩)

theorem helperOk_muldiv (r : Regs) (a l rh d : Nat) : HelperOk r a (aluMuldiv r a l rh d) := by
  rcases writeRegKey_cases a with ⟨ha, hk⟩ | ⟨ha, hk⟩
  · rw [aluMuldiv_spec r a l rh d ha]
    split
    · exact Or.inl ⟨rfl, ha, _, _, _, rfl⟩
    · exact Or.inr (Or.inl ⟨_, rfl, by decide, rfl, by omega⟩)
  · unfold aluMuldiv; rw [hk]
    exact Or.inr (Or.inl ⟨_, rfl, by decide, rfl, fun _ => rfl⟩)

/-- `alu_narrowint_op` writes the destination before `$of`/`$err`; for a writable destination the three
writes commute, giving the specified register file -/
theorem narrow_sets_comm (r : Regs) (k wrapped overflow : Nat) (hk : 16 ≤ k) :
    incPc (((r.set k wrapped).set regOF overflow).set regERR 0) = specOk r k wrapped overflow 0 := by
  funext j
  have h1 : k ≠ 2 := by omega
  have h2 : k ≠ 8 := by omega
  have h3 : k ≠ 3 := by omega
  simp only [specOk, incPc, Regs.set, regPC, regOF, regERR, satAdd, instrSize]
  by_cases j3 : j = 3
  · subst j3; simp [h1, h2, h3, Ne.symm h3]
  · by_cases j8 : j = 8
    · subst j8; simp [Ne.symm h2]
    · by_cases j2 : j = 2
      · subst j2; simp [Ne.symm h1]
      · simp [j3, j8, j2]

theorem aluNarrowintOp_spec (r : Regs) (dst lhs rhs : Nat) (op : NarrowOp) (w : Width) (ha : 16 ≤ dst) :
    aluNarrowintOp r dst lhs rhs op w =
      let res := narrowCompute op w (truncate lhs w) (truncate rhs w)
      if res.2 = 0 ∨ isWrapping (r regFLAG) = true then (specOk r dst res.1 res.2 0, none)
      else (r, some .ArithmeticOverflow) := by
  simp only [aluNarrowintOp, writeRegKey_ok ha, narrow_sets_comm r dst _ _ ha]
  by_cases hw : isWrapping (r regFLAG) = true <;>
    by_cases hz : (narrowCompute op w (truncate lhs w) (truncate rhs w)).2 = 0 <;> simp [hw, hz]

theorem helperOk_narrow (r : Regs) (dst lhs rhs : Nat) (op : NarrowOp) (w : Width) :
    HelperOk r dst (aluNarrowintOp r dst lhs rhs op w) := by
  rcases writeRegKey_cases dst with ⟨ha, hk⟩ | ⟨ha, hk⟩
  · rw [aluNarrowintOp_spec r dst lhs rhs op w ha]
    simp only []
    split
    · exact Or.inl ⟨rfl, ha, _, _, _, rfl⟩
    · exact Or.inr (Or.inl ⟨_, rfl, by decide, rfl, by omega⟩)
  · unfold aluNarrowintOp; rw [hk]
    exact Or.inr (Or.inl ⟨_, rfl, by decide, rfl, fun _ => rfl⟩)

theorem len0 {l : List Nat} (h : l.length = 0) : l = [] := List.eq_nil_of_length_eq_zero h
theorem len2 {l : List Nat} (h : l.length = 2) : ∃ a b, l = [a, b] := by
  match l, h with
  | [a, b], _ => exact ⟨a, b, rfl⟩
theorem len3 {l : List Nat} (h : l.length = 3) : ∃ a b c, l = [a, b, c] := by
  match l, h with
  | [a, b, c], _ => exact ⟨a, b, c, rfl⟩
theorem len4 {l : List Nat} (h : l.length = 4) : ∃ a b c d, l = [a, b, c, d] := by
  match l, h with
  | [a, b, c, d], _ => exact ⟨a, b, c, d, rfl⟩

/-! ### `checked_pow` -/

theorem pow_ge_of_two_le {b e : Nat} (hb : 2 ≤ b) (he : 64 ≤ e) : 2 ^ 64 ≤ b ^ e :=
  calc 2 ^ 64 ≤ 2 ^ e := Nat.pow_le_pow_right (by decide) he
    _ ≤ b ^ e := Nat.pow_le_pow_left hb e

theorem checkedPow_spec (b e : Nat) : checkedPow b e = if b ^ e < 2 ^ 64 then some (b ^ e) else none := by
  unfold checkedPow
  by_cases hb : b < 2
  · rw [if_pos hb]
    have : b = 0 ∨ b = 1 := by omega
    rcases this with rfl | rfl
    · by_cases he : e = 0
      · subst he; simp
      · rw [if_neg he, Nat.zero_pow (by omega)]; simp
    · simp
  · rw [if_neg hb]
    by_cases he : 64 ≤ e
    · rw [if_pos he]
      have := pow_ge_of_two_le (by omega : 2 ≤ b) he
      rw [if_neg (by omega)]
    · rw [if_neg he]

theorem overflowingPow_spec (b e : Nat) :
    overflowingPow b e = if b ^ e < 2 ^ 64 then (b ^ e, false) else (0, true) := by
  unfold overflowingPow
  rw [checkedPow_spec]
  by_cases h : b ^ e < 2 ^ 64 <;> simp [h]

theorem expFn_spec (b c : Nat) : expFn b c = if b ^ c < 2 ^ 64 then (b ^ c, false) else (0, true) := by
  unfold expFn
  by_cases hc : c < 2 ^ 32
  · rw [if_pos hc, overflowingPow_spec]
  · rw [if_neg hc]
    by_cases hb : b < 2
    · rw [if_pos hb]
      have : b = 0 ∨ b = 1 := by omega
      rcases this with rfl | rfl
      · rw [Nat.zero_pow (by omega)]; simp
      · simp
    · rw [if_neg hb]
      have := pow_ge_of_two_le (by omega : 2 ≤ b) (by omega : 64 ≤ c)
      rw [if_neg (by omega)]

/-! ### `checked_ilog` -/

theorem ilogAux_spec (b : Nat) (hb : 2 ≤ b) : ∀ (fuel r : Nat), 1 ≤ r → r < 2 ^ fuel →
    b ^ ilogAux b fuel r ≤ r ∧ r < b ^ (ilogAux b fuel r + 1) := by
  intro fuel
  induction fuel with
  | zero => intro r h1 h2; simp at h2; omega
  | succ n ih =>
    intro r h1 h2
    unfold ilogAux
    by_cases hlt : r < b
    · rw [if_pos hlt]; simp; omega
    · rw [if_neg hlt]
      have hq1 : 1 ≤ r / b := (Nat.one_le_div_iff (by omega)).mpr (by omega)
      have hq2 : r / b < 2 ^ n := by
        have : r / b ≤ r / 2 := Nat.div_le_div_left hb (by decide)
        have : r / 2 < 2 ^ n := by rw [Nat.pow_succ] at h2; omega
        omega
      obtain ⟨l, u⟩ := ih (r / b) hq1 hq2
      generalize ilogAux b n (r / b) = k at *
      constructor
      · calc b ^ (1 + k) = b ^ k * b := by rw [Nat.add_comm, Nat.pow_succ]
          _ ≤ (r / b) * b := Nat.mul_le_mul_right b l
          _ ≤ r := Nat.div_mul_le_self r b
      · have h3 : r < (r / b + 1) * b := by
          have := Nat.div_add_mod r b
          have := Nat.mod_lt r (by omega : b > 0)
          rw [Nat.add_mul, Nat.mul_comm (r / b) b]; omega
        calc r < (r / b + 1) * b := h3
          _ ≤ b ^ (k + 1) * b := Nat.mul_le_mul_right b (by omega)
          _ = b ^ (1 + k + 1) := by rw [← Nat.pow_succ]; congr 1; omega

theorem checkedIlog_spec (a b : Nat) (ha : a ≠ 0) (ha64 : a < 2 ^ 64) (hb : 2 ≤ b) :
    ∃ l, checkedIlog a b = some l ∧ b ^ l ≤ a ∧ a < b ^ (l + 1) := by
  unfold checkedIlog
  rw [if_neg (by omega)]
  exact ⟨_, rfl, ilogAux_spec b hb 64 a (by omega) ha64⟩

/-! ### integer roots -/

/-- `r` is the integer `n`-th root of `t` -/
def IsRoot (t n r : Nat) : Prop := r ^ n ≤ t ∧ t < (r + 1) ^ n

theorem IsRoot.le_iff {t n r : Nat} (h : IsRoot t n r) (hn : n ≠ 0) (v : Nat) : v ^ n ≤ t ↔ v ≤ r := by
  constructor
  · intro hv
    by_cases hle : v ≤ r
    · exact hle
    · have : (r + 1) ^ n ≤ v ^ n := Nat.pow_le_pow_left (by omega) n
      have := h.2
      omega
  · intro hv
    exact Nat.le_trans (Nat.pow_le_pow_left hv n) h.1

theorem IsRoot.unique {t n r r' : Nat} (h : IsRoot t n r) (h' : IsRoot t n r') (hn : n ≠ 0) : r = r' := by
  have a := (h.le_iff hn r').mp h'.1
  have b := (h'.le_iff hn r).mp h.1
  omega

theorem irootBits_spec (t n : Nat) (hn : n ≠ 0) : ∀ (bit r : Nat), r ^ n ≤ t → t < (r + 2 ^ bit) ^ n →
    IsRoot t n (irootBits t n bit r) := by
  intro bit
  induction bit with
  | zero => intro r h1 h2; unfold irootBits; exact ⟨h1, by simpa using h2⟩
  | succ k ih =>
    intro r h1 h2
    unfold irootBits
    by_cases hc : (r + 2 ^ k) ^ n ≤ t
    · rw [if_pos hc]
      apply ih _ hc
      have : r + 2 ^ k + 2 ^ k = r + 2 ^ (k + 1) := by rw [Nat.pow_succ]; omega
      rw [this]; exact h2
    · rw [if_neg hc]
      exact ih _ h1 (by omega)

theorem iroot_spec (t n : Nat) (hn : n ≠ 0) (ht : t < 2 ^ 64) : IsRoot t n (iroot t n) := by
  unfold iroot
  apply irootBits_spec t n hn 64 0
  · rw [Nat.zero_pow (by omega)]; omega
  · have : (2 : Nat) ^ 64 ≤ (0 + 2 ^ 64) ^ n := by
      rw [Nat.zero_add]
      calc (2 : Nat) ^ 64 = (2 ^ 64) ^ 1 := by simp
        _ ≤ (2 ^ 64) ^ n := Nat.pow_le_pow_right (by decide) (by omega)
    omega

theorem nthPowerBelowTarget_iff (t n v : Nat) (ht : t < 2 ^ 64) :
    nthPowerBelowTarget t n v = true ↔ t < v ^ n := by
  unfold nthPowerBelowTarget
  rw [checkedPow_spec]
  by_cases h : v ^ n < 2 ^ 64
  · rw [if_pos h]; simp
  · rw [if_neg h]; simp; omega

/-- assumption on the floating-point seed of `checked_nth_root` (third-party `f64::powf` + cast):
within one of the exact integer root whenever the seed is used -/
def GuessOk (guess : Nat → Nat → Nat) : Prop :=
  ∀ t n root, 2 ≤ t → t < 2 ^ 64 → 2 ≤ n → n < t → n ≤ 64 → IsRoot t n root →
    root ≤ guess t n + 1 ∧ guess t n ≤ root + 1

theorem checkedNthRoot_spec (guess : Nat → Nat → Nat) (hg : GuessOk guess) (t n : Nat) (hn : n ≠ 0) (ht : t < 2 ^ 64) :
    ∃ r, checkedNthRoot guess t n = some r ∧ IsRoot t n r := by
  unfold checkedNthRoot
  rw [if_neg hn]
  by_cases h1 : n = 1 ∨ t ≤ 1
  · rw [if_pos h1]
    refine ⟨t, rfl, ?_⟩
    rcases h1 with rfl | h1
    · simp [IsRoot]
    · have : t = 0 ∨ t = 1 := by omega
      rcases this with rfl | rfl
      · simp [IsRoot, Nat.zero_pow (Nat.pos_of_ne_zero hn)]
      · refine ⟨by simp, ?_⟩
        calc 1 < 2 := by decide
          _ = 2 ^ 1 := by simp
          _ ≤ 2 ^ n := Nat.pow_le_pow_right (by decide) (by omega)
  · rw [if_neg h1]
    have hn2 : 2 ≤ n := by omega
    have ht2 : 2 ≤ t := by omega
    by_cases h2 : n ≥ t ∨ n > 64
    · rw [if_pos h2]
      refine ⟨1, rfl, by simp; omega, ?_⟩
      -- t < 2^n
      have hlt : t < 2 ^ n := by
        rcases h2 with h2 | h2
        · exact Nat.lt_of_le_of_lt h2 Nat.lt_two_pow_self
        · calc t < 2 ^ 64 := ht
            _ ≤ 2 ^ n := Nat.pow_le_pow_right (by decide) (by omega)
      simpa using hlt
    · rw [if_neg h2]
      obtain hroot := iroot_spec t n hn ht
      obtain ⟨g1, g2⟩ := hg t n (iroot t n) ht2 ht hn2 (by omega) (by omega) hroot
      generalize iroot t n = R at *
      generalize guess t n = g at *
      simp only []
      have hb : ∀ v, nthPowerBelowTarget t n v = true ↔ R < v := by
        intro v
        rw [nthPowerBelowTarget_iff t n v ht]
        have := hroot.le_iff hn v
        omega
      by_cases c1 : nthPowerBelowTarget t n g = true
      · rw [if_pos c1]
        have := (hb g).mp c1
        have : g - 1 = R := by omega
        exact ⟨_, rfl, this ▸ hroot⟩
      · rw [if_neg c1]
        have n1 : ¬ R < g := fun h => c1 ((hb g).mpr h)
        by_cases c2 : nthPowerBelowTarget t n (g + 1) = true
        · rw [if_pos c2]
          have := (hb (g + 1)).mp c2
          have : g = R := by omega
          exact ⟨_, rfl, this ▸ hroot⟩
        · rw [if_neg c2]
          have n2 : ¬ R < g + 1 := fun h => c2 ((hb (g + 1)).mpr h)
          have : g + 1 = R := by omega
          exact ⟨_, rfl, this ▸ hroot⟩

/-- the `expect` on `guess.checked_add(1)` cannot fire under `GuessOk` -/
theorem guess_plus_one_fits (guess : Nat → Nat → Nat) (hg : GuessOk guess) (t n : Nat)
    (ht2 : 2 ≤ t) (ht : t < 2 ^ 64) (hn2 : 2 ≤ n) (hnt : n < t) (hn64 : n ≤ 64) : guess t n + 1 < 2 ^ 64 := by
  have hn : n ≠ 0 := by omega
  have hroot := iroot_spec t n hn ht
  obtain ⟨_, g2⟩ := hg t n _ ht2 ht hn2 hnt hn64 hroot
  -- root^2 ≤ root^n ≤ t < 2^64, hence root < 2^32
  have h1 : (iroot t n) ^ 2 ≤ t := by
    by_cases hz : iroot t n = 0
    · rw [hz]; simp
    · exact Nat.le_trans (Nat.pow_le_pow_right (by omega) hn2) hroot.1
  generalize iroot t n = R at *
  have : R < 2 ^ 32 := by
    by_cases h : R < 2 ^ 32
    · exact h
    · have : (2 ^ 32) ^ 2 ≤ R ^ 2 := Nat.pow_le_pow_left (by omega) 2
      have : (2 : Nat) ^ 64 = (2 ^ 32) ^ 2 := by decide
      omega
  omega

/-- the exact integer root used by the driver satisfies the seed assumption -/
theorem guessOk_iroot : GuessOk iroot := by
  intro t n root _ ht hn2 _ _ hr
  have := (iroot_spec t n (by omega) ht).unique hr (by omega)
  omega

/-- `$flag` has WRAPPING set -/
abbrev Wrapping (r : Regs) : Prop := isWrapping (r regFLAG) = true
/-- `$flag` has UNSAFEMATH set -/
abbrev UnsafeMath (r : Regs) : Prop := isUnsafeMath (r regFLAG) = true

/-! ### cores of the per-instruction theorems of Props/C21 -/

theorem sub_core (r : Regs) (a x y : Nat) (ha : 16 ≤ a) (hx : x < 2 ^ 64) (hy : y < 2 ^ 64) :
    aluCaptureOverflow r a (u128Sub x y) =
      if y ≤ x then (specOk r a (x - y) 0 0, none)
      else if Wrapping r then (specOk r a (x + 2 ^ 64 - y) (2 ^ 64 - 1) 0, none)
      else (r, some .ArithmeticOverflow) := by
  rw [aluCaptureOverflow_spec r a _ ha (by unfold u128Sub; exact Nat.mod_lt _ (by decide))]
  unfold u128Sub
  by_cases hle : y ≤ x
  · have h1 : (x + 2 ^ 128 - y) % 2 ^ 128 = x - y := by omega
    rw [h1, if_pos (Or.inl (by omega)), if_pos hle]
    have h2 : (x - y) % 2 ^ 64 = x - y := Nat.mod_eq_of_lt (by omega)
    have h3 : (x - y) / 2 ^ 64 = 0 := Nat.div_eq_of_lt (by omega)
    rw [h2, h3]
  · have h1 : (x + 2 ^ 128 - y) % 2 ^ 128 = x + 2 ^ 128 - y := Nat.mod_eq_of_lt (by omega)
    rw [h1, if_neg hle]
    by_cases hw : Wrapping r
    · rw [if_pos (Or.inr hw), if_pos hw]
      have h2 : (x + 2 ^ 128 - y) % 2 ^ 64 = x + 2 ^ 64 - y := by omega
      have h3 : (x + 2 ^ 128 - y) / 2 ^ 64 = 2 ^ 64 - 1 := by omega
      rw [h2, h3]
    · rw [if_neg (by intro h; rcases h with h | h; omega; exact hw h), if_neg hw]

theorem mul_lt (x y : Nat) (hx : x < 2 ^ 64) (hy : y < 2 ^ 64) : x * y < 2 ^ 128 :=
  calc x * y < 2 ^ 64 * 2 ^ 64 := Nat.mul_lt_mul'' hx hy
    _ = 2 ^ 128 := by decide

theorem div_core (r : Regs) (a x y : Nat) (ha : 16 ≤ a) :
    aluError r a (wordDiv x y) (y == 0) =
      if y = 0 then (if UnsafeMath r then (specOk r a 0 0 1, none) else (r, some .ArithmeticError))
      else (specOk r a (x / y) 0 0, none) := by
  rw [aluError_spec r a _ _ ha]
  by_cases hy : y = 0 <;> simp [hy, wordDiv]

theorem mod_core (r : Regs) (a x y : Nat) (ha : 16 ≤ a) :
    aluError r a (wordRem x y) (y == 0) =
      if y = 0 then (if UnsafeMath r then (specOk r a 0 0 1, none) else (r, some .ArithmeticError))
      else (specOk r a (x % y) 0 0, none) := by
  rw [aluError_spec r a _ _ ha]
  by_cases hy : y = 0 <;> simp [hy, wordRem]

theorem exp_core (r : Regs) (a x y : Nat) (ha : 16 ≤ a) (res : Nat × Bool)
    (hres : res = if x ^ y < 2 ^ 64 then (x ^ y, false) else (0, true)) :
    aluBooleanOverflow r a res =
      if x ^ y < 2 ^ 64 then (specOk r a (x ^ y) 0 0, none)
      else if Wrapping r then (specOk r a 0 1 0, none)
      else (r, some .ArithmeticOverflow) := by
  rw [aluBooleanOverflow_spec r a _ ha, hres]
  by_cases h : x ^ y < 2 ^ 64 <;> simp [h]

theorem shlWord_eq (x s : Nat) (_hx : x < 2 ^ 64) : shlWord x s = x * 2 ^ s % 2 ^ 64 := by
  unfold shlWord
  by_cases h : s < 64
  · rw [if_pos (by omega), if_pos h, Nat.shiftLeft_eq]
  · have : x * 2 ^ s % 2 ^ 64 = 0 := by
      have : s = 64 + (s - 64) := by omega
      rw [this, Nat.pow_add, ← Nat.mul_assoc, Nat.mul_comm x, Nat.mul_assoc]
      exact Nat.mul_mod_right _ _
    rw [this]; split <;> simp [h]

theorem shrWord_eq (x s : Nat) (hx : x < 2 ^ 64) : shrWord x s = x / 2 ^ s := by
  unfold shrWord
  by_cases h : s < 64
  · rw [if_pos (by omega), if_pos h, Nat.shiftRight_eq_div_pow]
  · have : x / 2 ^ s = 0 := Nat.div_eq_of_lt (Nat.lt_of_lt_of_le hx (Nat.pow_le_pow_right (by decide) (by omega)))
    rw [this]; split <;> simp [h]

end FuelVerif.Alu
