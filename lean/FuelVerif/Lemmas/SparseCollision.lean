/-
Collision extraction for the sparse Merkle tree hashes.

`HashOK H` (injective on ALL 65-byte tagged inputs, 32-byte output) has no instance (pigeonhole), so theorems
assuming it are vacuous in the strict sense. What the proofs really use is injectivity of the TREE hash on the
finitely many trees that occur (`SmtRefine.HashOn H U`). This file reduces that to the absence of a collision
among an explicit finite list of tagged 65-byte inputs:

* `inputOf t` — the byte string `prefix ‖ lo ‖ hi` whose hash is the hash of the top node of `t`;
  `treeInputs t` — the inputs of all non-empty subtrees of `t`;
* `NoCollisionOn H L` — `H` is injective on the list `L` and never the zero sum on it (decidable; a real hash
  function satisfies it on every list anybody has ever computed); `Collision H L` — its negation, as an explicit
  witness: two different members of `L` with the same hash, or a member hashing to the zero sum;
* `hashOn_of_noCollision` — `NoCollisionOn H L` for a list `L` containing the inputs of all trees of a
  subtree-closed class `U` gives `HashOn H U`.
-/
import FuelVerif.Lemmas.SparseRefine
namespace FuelVerif.SmtRefine
open FuelVerif FuelVerif.SmtStore FuelVerif.SmtBytes FuelVerif.Gen.Sparse FuelVerif.Smt

/-- `H` is injective on the list `L` and never the zero sum on it -/
def NoCollisionOn (H : Bytes → Bytes) (L : List Bytes) : Prop :=
  (∀ x ∈ L, ∀ y ∈ L, H x = H y → x = y) ∧ (∀ x ∈ L, H x ≠ zeroSum)

instance (H : Bytes → Bytes) (L : List Bytes) : Decidable (NoCollisionOn H L) :=
  inferInstanceAs (Decidable (_ ∧ _))

/-- an explicit collision in `L`: two different members with the same hash, or a preimage of the zero sum -/
def Collision (H : Bytes → Bytes) (L : List Bytes) : Prop :=
  (∃ x ∈ L, ∃ y ∈ L, x ≠ y ∧ H x = H y) ∨ (∃ x ∈ L, H x = zeroSum)

theorem collision_of_not {H : Bytes → Bytes} {L : List Bytes} (h : ¬ NoCollisionOn H L) : Collision H L := by
  by_cases h1 : ∃ x ∈ L, ∃ y ∈ L, x ≠ y ∧ H x = H y
  · exact .inl h1
  · by_cases h2 : ∃ x ∈ L, H x = zeroSum
    · exact .inr h2
    · exfalso
      apply h
      refine ⟨fun x hx y hy e => ?_, fun x hx e => h2 ⟨x, hx, e⟩⟩
      by_cases exy : x = y
      · exact exy
      · exact absurd ⟨x, hx, y, hy, exy, e⟩ h1

theorem NoCollisionOn.mono {H : Bytes → Bytes} {L L' : List Bytes} (hs : ∀ x ∈ L', x ∈ L)
    (h : NoCollisionOn H L) : NoCollisionOn H L' :=
  ⟨fun x hx y hy e => h.1 x (hs x hx) y (hs y hy) e, fun x hx => h.2 x (hs x hx)⟩

/-- conclusion-or-collision from conclusion-under-no-collision -/
theorem or_collision {H : Bytes → Bytes} {L : List Bytes} {P : Prop} (h : NoCollisionOn H L → P) :
    P ∨ Collision H L := by
  by_cases hn : NoCollisionOn H L
  · exact .inl (h hn)
  · exact .inr (collision_of_not hn)

variable (H : Bytes → Bytes) (hl : ∀ x, (H x).length = keyBytes)

/-- the tagged input whose hash is the hash of the top node of `t` (`calculate_hash`'s
`prefix ‖ bytes_lo ‖ bytes_hi`) -/
def inputOf : T → Bytes
  | .empty => []
  | .leaf k v => Prefix.leaf.byte :: (k.val ++ v.val)
  | .node l r => Prefix.node.byte :: ((l.hash (hashes32 H hl)).val ++ (r.hash (hashes32 H hl)).val)

/-- the non-empty subtrees of `t` -/
def subtrees : T → List T
  | .empty => []
  | .leaf k v => [.leaf k v]
  | .node l r => .node l r :: (subtrees l ++ subtrees r)

theorem mem_subtrees {u : T} : ∀ {t : T}, u ∈ subtrees t ↔ IsSub u t
  | .empty => by simp [subtrees, IsSub]
  | .leaf k v => by simp [subtrees, IsSub]
  | .node l r => by
    simp only [subtrees, IsSub, List.mem_cons, List.mem_append, mem_subtrees (t := l), mem_subtrees (t := r)]

/-- every input hashed to compute the root of `t` -/
def treeInputs (t : T) : List Bytes := (subtrees t).map (inputOf H hl)

theorem mem_treeInputs {u t : T} (h : IsSub u t) : inputOf H hl u ∈ treeInputs H hl t :=
  List.mem_map.mpr ⟨u, mem_subtrees.mpr h, rfl⟩

theorem hash_eq_input {t : T} (h : t ≠ .empty) : (t.hash (hashes32 H hl)).val = H (inputOf H hl t) := by
  cases t with
  | empty => exact absurd rfl h
  | leaf k v => rfl
  | node l r => rfl

theorem inputOf_length {t : T} (h : t ≠ .empty) : (inputOf H hl t).length = 1 + 2 * keyBytes := by
  cases t with
  | empty => exact absurd rfl h
  | leaf k v => simp [inputOf, k.property, v.property]; omega
  | node l r =>
    simp [inputOf, (l.hash (hashes32 H hl)).property, (r.hash (hashes32 H hl)).property]; omega

/-- **no collision among the inputs of a subtree-closed class of trees ⇒ the tree hash is injective and
non-zero on the class** -/
theorem hashOn_of_noCollision (U : T → Prop) (L : List Bytes) (hUne : ∀ u, U u → u ≠ .empty)
    (hUsub : ∀ u t, U t → IsSub u t → U u) (hL : ∀ u, U u → inputOf H hl u ∈ L)
    (hnc : NoCollisionOn H L) : HashOn H U := by
  have nz : ∀ u : T, U u → (u.hash (hashes32 H hl)).val ≠ zeroSum := by
    intro u hu
    rw [hash_eq_input H hl (hUne u hu)]
    exact hnc.2 _ (hL u hu)
  have hin : ∀ u v : T, U u → U v → (u.hash (hashes32 H hl)).val = (v.hash (hashes32 H hl)).val →
      inputOf H hl u = inputOf H hl v := by
    intro u v hu hv e
    rw [hash_eq_input H hl (hUne u hu), hash_eq_input H hl (hUne v hv)] at e
    exact hnc.1 _ (hL u hu) _ (hL v hv) e
  have childU : ∀ {c t : T}, U t → IsSub c t ∨ c = .empty → c = .empty ∨ U c := by
    intro c t ht hc
    rcases hc with hc | hc
    · exact .inr (hUsub c t ht hc)
    · exact .inl hc
  have inj : ∀ u v : T, U u → U v → (u.hash (hashes32 H hl)).val = (v.hash (hashes32 H hl)).val → u = v := by
    intro u
    induction u with
    | empty => intro v hu; exact absurd rfl (hUne _ hu)
    | leaf k a =>
      intro v hu hv e
      have ei := hin _ _ hu hv e
      cases v with
      | empty => exact absurd rfl (hUne _ hv)
      | leaf k' a' =>
        obtain ⟨_, h1, h2⟩ := tagged_inj k.property k'.property ei
        rw [Subtype.ext h1, Subtype.ext h2]
      | node l' r' =>
        have := (tagged_inj k.property (l'.hash (hashes32 H hl)).property ei).1
        cases this
    | node l r ihl ihr =>
      intro v hu hv e
      have ei := hin _ _ hu hv e
      cases v with
      | empty => exact absurd rfl (hUne _ hv)
      | leaf k' a' =>
        have := (tagged_inj (l.hash (hashes32 H hl)).property k'.property ei).1
        cases this
      | node l' r' =>
        obtain ⟨_, h1, h2⟩ := tagged_inj (l.hash (hashes32 H hl)).property
          (l'.hash (hashes32 H hl)).property ei
        have sub : ∀ (c c' : T), (∀ v, U c → U v →
            (c.hash (hashes32 H hl)).val = (v.hash (hashes32 H hl)).val → c = v) →
            (c = .empty ∨ U c) → (c' = .empty ∨ U c') →
            (c.hash (hashes32 H hl)).val = (c'.hash (hashes32 H hl)).val → c = c' := by
          intro c c' ih hc hc' ec
          rcases hc with hc | hc <;> rcases hc' with hc' | hc'
          · rw [hc, hc']
          · subst hc; exact absurd ec.symm (nz c' hc')
          · subst hc'; exact absurd ec (nz c hc)
          · exact ih c' hc hc' ec
        have el : l = l' := sub l l' ihl
          (childU hu (by by_cases e0 : l = .empty
                         · exact .inr e0
                         · exact .inl (.inr (.inl (IsSub.refl e0)))))
          (childU hv (by by_cases e0 : l' = .empty
                         · exact .inr e0
                         · exact .inl (.inr (.inl (IsSub.refl e0))))) h1
        have er : r = r' := sub r r' ihr
          (childU hu (by by_cases e0 : r = .empty
                         · exact .inr e0
                         · exact .inl (.inr (.inr (IsSub.refl e0)))))
          (childU hv (by by_cases e0 : r' = .empty
                         · exact .inr e0
                         · exact .inl (.inr (.inr (IsSub.refl e0))))) h2
        rw [el, er]
  exact ⟨hl, inj, fun u hu _ => nz u hu⟩

end FuelVerif.SmtRefine
