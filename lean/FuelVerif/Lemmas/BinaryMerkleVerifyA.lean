/-
Lemmas for C10, part A (specification level): the RFC 6962 audit path recomputes the tree hash;
the recomputation as a fold along the list of directions `dirs m n`; closed form of the directions.
-/
import FuelVerif.Lemmas.BinaryMerkle
namespace FuelVerif.BMT
open FuelVerif

/-! ### spec level: audit path completeness -/

theorem rootFromPathRev_unfold (H : HashFn) (m n : Nat) (lh s : Bytes) (rest : List Bytes) (hn : 2 ≤ n) :
    rootFromPathRev H m n lh (s :: rest) =
      if m < splitPoint n then (rootFromPathRev H m (splitPoint n) lh rest).map (fun x => nodeSum H x s)
      else (rootFromPathRev H (m - splitPoint n) (n - splitPoint n) lh rest).map (fun x => nodeSum H s x) := by
  rw [rootFromPathRev.eq_def]
  simp only [show ¬ n ≤ 1 by omega, dite_false]

theorem rootFromPathRev_nil (H : HashFn) (m n : Nat) (lh : Bytes) (hn : 2 ≤ n) :
    rootFromPathRev H m n lh [] = none := by
  rw [rootFromPathRev.eq_def]
  simp only [show ¬ n ≤ 1 by omega, dite_false]

theorem rootFromPathRev_small (H : HashFn) (m n : Nat) (lh : Bytes) (rp : List Bytes) (hn : n ≤ 1) :
    rootFromPathRev H m n lh rp = if n = 1 ∧ m = 0 ∧ rp = [] then some lh else none := by
  rw [rootFromPathRev.eq_def]
  simp only [hn, dite_true]

theorem auditPath_unfold (H : HashFn) (m : Nat) (D : List Bytes) (h : 2 ≤ D.length) :
    auditPath H m D =
      if m < splitPoint D.length then auditPath H m (D.take (splitPoint D.length)) ++ [mth H (D.drop (splitPoint D.length))]
      else auditPath H (m - splitPoint D.length) (D.drop (splitPoint D.length)) ++ [mth H (D.take (splitPoint D.length))] := by
  match D, h with
  | d0 :: d1 :: rest, _ => rw [auditPath]

/-- **completeness at the specification level**: the RFC 6962 audit path of leaf `m` recomputes the tree hash -/
theorem rootFromPath_auditPath (H : HashFn) (D : List Bytes) (m : Nat) (d : Bytes) (hd : D[m]? = some d) :
    rootFromPath H m D.length (leafSum H d) (auditPath H m D) = some (mth H D) := by
  induction hn : D.length using Nat.strongRecOn generalizing D m with
  | _ n ih =>
    have hm : m < D.length := by
      rcases Nat.lt_or_ge m D.length with h | h
      · exact h
      · rw [List.getElem?_eq_none h] at hd; cases hd
    match D, hm with
    | [x], hm1 =>
      have hm0 : m = 0 := by simp only [List.length_singleton] at hm1; omega
      subst hm0
      simp only [List.getElem?_cons_zero, Option.some.injEq] at hd
      subst hd
      subst hn
      rw [auditPath, rootFromPath, mth]
      simp [rootFromPathRev_small]
    | d0 :: d1 :: rest, _ =>
      have hl : 2 ≤ (d0 :: d1 :: rest).length := by simp only [List.length_cons]; omega
      generalize hDD : d0 :: d1 :: rest = DD at *
      subst hn
      have hk := splitPoint_lt hl
      have hk0 := splitPoint_pos DD.length
      rw [auditPath_unfold H m DD hl, mth_unfold H DD hl, rootFromPath]
      by_cases hmk : m < splitPoint DD.length
      · simp only [hmk, if_true, List.reverse_append, List.reverse_singleton, List.singleton_append]
        rw [rootFromPathRev_unfold H _ _ _ _ _ hl]
        simp only [hmk, if_true]
        have hlen : (DD.take (splitPoint DD.length)).length = splitPoint DD.length := by
          rw [List.length_take]; omega
        have := ih _ hk (DD.take (splitPoint DD.length)) m
          (by rw [List.getElem?_take_of_lt hmk]; exact hd) hlen
        rw [rootFromPath] at this
        rw [this]; rfl
      · simp only [hmk, if_false, List.reverse_append, List.reverse_singleton, List.singleton_append]
        rw [rootFromPathRev_unfold H _ _ _ _ _ hl]
        simp only [hmk, if_false]
        have hlen : (DD.drop (splitPoint DD.length)).length = DD.length - splitPoint DD.length := by
          rw [List.length_drop]
        have := ih _ (by omega) (DD.drop (splitPoint DD.length)) (m - splitPoint DD.length)
          (by rw [List.getElem?_drop]; rw [show splitPoint DD.length + (m - splitPoint DD.length) = m by omega]; exact hd) hlen
        rw [rootFromPath] at this
        rw [this]; rfl

/-! ### directions of the RFC 6962 audit path, leaf first (`true` = the running node is a LEFT child) -/

def dirs (m n : Nat) : List Bool :=
  if _h : n ≤ 1 then []
  else if m < splitPoint n then dirs m (splitPoint n) ++ [true]
  else dirs (m - splitPoint n) (n - splitPoint n) ++ [false]
termination_by n
decreasing_by
  · exact splitPoint_lt (by omega)
  · have := splitPoint_pos n
    omega

theorem dirs_small {m n : Nat} (h : n ≤ 1) : dirs m n = [] := by
  rw [dirs]; simp only [h, dite_true]

theorem dirs_unfold {m n : Nat} (h : 2 ≤ n) :
    dirs m n = if m < splitPoint n then dirs m (splitPoint n) ++ [true]
      else dirs (m - splitPoint n) (n - splitPoint n) ++ [false] := by
  rw [dirs]; simp only [show ¬ n ≤ 1 by omega, dite_false]

def stepUp (H : HashFn) (acc : Bytes) (x : Bool × Bytes) : Bytes :=
  if x.1 then nodeSum H acc x.2 else nodeSum H x.2 acc

def foldUp (H : HashFn) (lh : Bytes) (l : List (Bool × Bytes)) : Bytes := l.foldl (stepUp H) lh

/-- the recursive recomputation = fold of the proof along the directions, when the length fits -/
theorem rootFromPath_eq_fold (H : HashFn) (lh : Bytes) : ∀ (n m : Nat) (p : List Bytes), m < n →
    rootFromPath H m n lh p =
      if p.length = (dirs m n).length then some (foldUp H lh ((dirs m n).zip p)) else none := by
  intro n
  induction n using Nat.strongRecOn with
  | _ n ih =>
    intro m p hm
    rcases Nat.lt_or_ge n 2 with hn | hn
    · have hn1 : n = 1 := by omega
      subst hn1
      have hm0 : m = 0 := by omega
      subst hm0
      rw [rootFromPath, rootFromPathRev_small H _ _ _ _ (Nat.le_refl 1), dirs_small (Nat.le_refl 1)]
      cases p with
      | nil => simp [foldUp]
      | cons a b => simp
    · rw [dirs_unfold hn]
      have hk := splitPoint_lt hn
      have hk0 := splitPoint_pos n
      rcases List.eq_nil_or_concat p with rfl | ⟨init, s, rfl⟩
      · rw [rootFromPath, List.reverse_nil, rootFromPathRev_nil H _ _ _ hn]
        by_cases hmk : m < splitPoint n <;> simp [hmk]
      · rw [rootFromPath, List.concat_eq_append, List.reverse_append, List.reverse_singleton, List.singleton_append,
          rootFromPathRev_unfold H _ _ _ _ _ hn]
        by_cases hmk : m < splitPoint n
        · simp only [hmk, if_true]
          have := ih _ hk m init hmk
          rw [rootFromPath] at this
          rw [this]
          by_cases hl : init.length = (dirs m (splitPoint n)).length
          · simp only [hl, if_true, List.length_append, List.length_singleton, Option.map_some]
            rw [List.zip_append hl.symm]
            simp [foldUp, stepUp]
          · simp only [hl, if_false, List.length_append, List.length_singleton, Option.map_none]
            rw [if_neg (by omega)]
        · simp only [hmk, if_false]
          have := ih _ (by omega : n - splitPoint n < n) (m - splitPoint n) init (by omega)
          rw [rootFromPath] at this
          rw [this]
          by_cases hl : init.length = (dirs (m - splitPoint n) (n - splitPoint n)).length
          · simp only [hl, if_true, List.length_append, List.length_singleton, Option.map_some]
            rw [List.zip_append hl.symm]
            simp [foldUp, stepUp]
          · simp only [hl, if_false, List.length_append, List.length_singleton, Option.map_none]
            rw [if_neg (by omega)]

/-! ### arithmetic of aligned blocks -/

/-- direction at height `h` inside a complete subtree: bit `h` of the index clear ⇒ left child -/
def bitDir (m h : Nat) : Bool := decide ((m / 2 ^ h) % 2 = 0)

def bitsL (m j : Nat) : List Bool := (List.range j).map (bitDir m)

theorem pow_split {h t : Nat} (hle : h ≤ t) : 2 ^ t = 2 ^ h * 2 ^ (t - h) := by
  rw [← Nat.pow_add]; congr 1; omega

theorem div_sub_pow {m h t : Nat} (hle : h ≤ t) (hm : 2 ^ t ≤ m) :
    (m - 2 ^ t) / 2 ^ h = m / 2 ^ h - 2 ^ (t - h) ∧ 2 ^ (t - h) ≤ m / 2 ^ h := by
  have hp := Nat.pow_pos (n := h) (show 0 < 2 by decide)
  rw [pow_split hle] at hm ⊢
  refine ⟨Nat.sub_mul_div _ _ _, ?_⟩
  exact (Nat.le_div_iff_mul_le hp).mpr (by rw [Nat.mul_comm]; exact hm)

theorem bitDir_sub_pow {m h t : Nat} (hlt : h < t) (hm : 2 ^ t ≤ m) : bitDir (m - 2 ^ t) h = bitDir m h := by
  unfold bitDir
  obtain ⟨e1, e2⟩ := div_sub_pow (Nat.le_of_lt hlt) hm
  rw [e1]
  have : 2 ^ (t - h) = 2 * 2 ^ (t - h - 1) := by
    rw [← Nat.pow_succ']; congr 1; omega
  rw [this] at e2 ⊢
  generalize m / 2 ^ h = x at *
  generalize 2 ^ (t - h - 1) = y at *
  have : (x - 2 * y) % 2 = x % 2 := by omega
  rw [this]

theorem blockStart_sub_pow {m h t : Nat} (hle : h ≤ t) (hm : 2 ^ t ≤ m) :
    (m - 2 ^ t) / 2 ^ h * 2 ^ h + 2 ^ t = m / 2 ^ h * 2 ^ h := by
  obtain ⟨e1, e2⟩ := div_sub_pow hle hm
  rw [e1, Nat.sub_mul, pow_split hle, Nat.mul_comm (2 ^ (t - h)) (2 ^ h)]
  have : 2 ^ h * 2 ^ (t - h) ≤ m / 2 ^ h * 2 ^ h := by
    rw [Nat.mul_comm]; exact Nat.mul_le_mul_right _ e2
  omega

theorem bitsL_sub_pow {m j t : Nat} (hjt : j ≤ t) (hm : 2 ^ t ≤ m) : bitsL (m - 2 ^ t) j = bitsL m j := by
  unfold bitsL
  apply List.map_congr_left
  intro h hh
  rw [List.mem_range] at hh
  exact bitDir_sub_pow (by omega) hm

theorem bitsL_succ (m j : Nat) : bitsL m (j + 1) = bitsL m j ++ [bitDir m j] := by
  unfold bitsL
  rw [List.range_succ, List.map_append]; rfl

theorem splitPoint_two_pow (T : Nat) : splitPoint (2 ^ (T + 1)) = 2 ^ T := by
  have hp := Nat.pow_pos (n := T) (show 0 < 2 by decide)
  have := @splitPoint_pow2_add T (2 ^ T) hp (Nat.le_refl _)
  rw [Nat.pow_succ]; rw [show 2 ^ T * 2 = 2 ^ T + 2 ^ T by omega]; exact this

/-- in a complete tree of `2^T` leaves the directions are the low `T` bits of the index -/
theorem dirs_pow2 : ∀ (T m : Nat), m < 2 ^ T → dirs m (2 ^ T) = bitsL m T
  | 0, m, _ => by rw [dirs_small (by simp)]; rfl
  | T + 1, m, hm => by
    have hp := Nat.pow_pos (n := T) (show 0 < 2 by decide)
    have h2 : 2 ≤ 2 ^ (T + 1) := by rw [Nat.pow_succ]; omega
    rw [dirs_unfold h2, splitPoint_two_pow, bitsL_succ]
    have e : 2 ^ (T + 1) - 2 ^ T = 2 ^ T := by rw [Nat.pow_succ]; omega
    by_cases hmk : m < 2 ^ T
    · simp only [hmk, if_true]
      rw [dirs_pow2 T m hmk]
      have : bitDir m T = true := by simp [bitDir, Nat.div_eq_of_lt hmk]
      rw [this]
    · simp only [hmk, if_false, e]
      rw [dirs_pow2 T (m - 2 ^ T) (by rw [Nat.pow_succ] at hm; omega), bitsL_sub_pow (Nat.le_refl _) (by omega)]
      have hd : m / 2 ^ T = 1 := by
        rw [Nat.pow_succ] at hm
        exact Nat.div_eq_of_lt_le (by omega) (by omega)
      have : bitDir m T = false := by simp [bitDir, hd]
      rw [this]

/-- the aligned block of `2^h` leaves containing `m` lies inside `[0, n)` -/
def blockIn (m n h : Nat) : Prop := m / 2 ^ h * 2 ^ h + 2 ^ h ≤ n

/-- closed form of the audit-path directions: `j` steps inside the largest complete aligned block
around `m` that fits below `n` (directions = bits of `m`), then one step as a LEFT child unless that
block ends the tree, then only steps as a RIGHT child -/
theorem dirs_shape : ∀ (n m : Nat), m < n → ∃ j c,
    dirs m n = bitsL m j ++ (if m / 2 ^ j * 2 ^ j + 2 ^ j = n then [] else [true]) ++ List.replicate c false ∧
    blockIn m n j ∧ ¬ blockIn m n (j + 1) := by
  intro n
  induction n using Nat.strongRecOn with
  | _ n ih =>
    intro m hm
    rcases Nat.lt_or_ge n 2 with hn | hn
    · have hn1 : n = 1 := by omega
      subst hn1
      have hm0 : m = 0 := by omega
      subst hm0
      refine ⟨0, 0, ?_, ?_, ?_⟩
      · rw [dirs_small (Nat.le_refl 1)]; simp [bitsL]
      · simp [blockIn]
      · simp [blockIn]
    · obtain ⟨⟨t, ht⟩, hk, hk2⟩ := splitPoint_spec hn
      have hp := Nat.pow_pos (n := t) (show 0 < 2 by decide)
      rcases Nat.lt_or_ge n (2 * splitPoint n) with hlt | hge
      · -- n is not a power of two
        rw [dirs_unfold hn]
        by_cases hmk : m < splitPoint n
        · simp only [hmk, if_true]
          rw [ht] at hmk hk hlt ⊢
          refine ⟨t, 0, ?_, ?_, ?_⟩
          · rw [dirs_pow2 t m hmk, Nat.div_eq_of_lt hmk]
            have : ¬ (2 ^ t = n) := by omega
            simp [this]
          · simp only [blockIn, Nat.div_eq_of_lt hmk]; omega
          · have : m < 2 ^ (t + 1) := by rw [Nat.pow_succ]; omega
            simp only [blockIn, Nat.div_eq_of_lt this]; rw [Nat.pow_succ]; omega
        · simp only [hmk, if_false]
          rw [ht] at hmk hk hlt ⊢
          have hmk' : 2 ^ t ≤ m := by omega
          obtain ⟨j, c, hd, hin, hnin⟩ := ih (n - 2 ^ t) (by omega) (m - 2 ^ t) (by omega)
          have hjt : j < t := by
            have h1 : 2 ^ j ≤ n - 2 ^ t := by unfold blockIn at hin; omega
            rcases Nat.lt_or_ge j t with h | h
            · exact h
            · have : 2 ^ t ≤ 2 ^ j := Nat.pow_le_pow_right (by decide) h
              omega
          have es := blockStart_sub_pow (Nat.le_of_lt hjt) hmk'
          have es1 := blockStart_sub_pow (show j + 1 ≤ t by omega) hmk'
          refine ⟨j, c + 1, ?_, ?_, ?_⟩
          · rw [hd, bitsL_sub_pow (Nat.le_of_lt hjt) hmk', List.replicate_succ', ← List.append_assoc]
            congr 2
            have : ((m - 2 ^ t) / 2 ^ j * 2 ^ j + 2 ^ j = n - 2 ^ t) ↔ (m / 2 ^ j * 2 ^ j + 2 ^ j = n) := by omega
            by_cases hc : m / 2 ^ j * 2 ^ j + 2 ^ j = n
            · rw [if_pos hc, if_pos (this.mpr hc)]
            · rw [if_neg hc, if_neg (fun h => hc (this.mp h))]
          · unfold blockIn at hin ⊢; omega
          · unfold blockIn at hnin ⊢; omega
      · -- n = 2^(t+1): complete tree
        have hn2 : n = 2 ^ (t + 1) := by rw [Nat.pow_succ]; omega
        subst hn2
        refine ⟨t + 1, 0, ?_, ?_, ?_⟩
        · rw [dirs_pow2 (t + 1) m hm, Nat.div_eq_of_lt hm]
          simp
        · simp only [blockIn, Nat.div_eq_of_lt hm]; omega
        · have : m < 2 ^ (t + 1 + 1) := by rw [Nat.pow_succ]; omega
          simp only [blockIn, Nat.div_eq_of_lt this]
          rw [Nat.pow_succ 2 (t + 1)]; omega

end FuelVerif.BMT
