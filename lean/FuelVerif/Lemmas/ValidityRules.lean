/-
Helper lemmas for C19, part 3: each stage of `check` succeeds exactly when a declarative condition holds.
-/
import FuelVerif.Lemmas.ValidityCheck
namespace FuelVerif.Validity
open FuelVerif.Fee

/-! ### control flow -/

theorem rejectIf_ok_iff (c : Bool) (e : VErr) (u : Unit) : rejectIf c e = .ok u ↔ c = false := by
  cases c <;> simp [rejectIf]

theorem liftFirst_ok_iff (o : Option VErr) (u : Unit) : liftFirst o = .ok u ↔ o = none := by
  cases o <;> simp [liftFirst]

theorem firstErr_none_iff {α : Type} (f : Nat → α → Option VErr) (l : List α) :
    ∀ k, firstErr f k l = none ↔ ∀ i x, l[i]? = some x → f (k + i) x = none := by
  induction l with
  | nil => intro k; simp [firstErr]
  | cons y rest ih =>
    intro k
    simp only [firstErr]
    cases hf : f k y with
    | some e =>
      simp only [reduceCtorEq, false_iff]
      intro h
      have := h 0 y (by simp)
      simp [hf] at this
    | none =>
      simp only
      rw [ih (k + 1)]
      constructor
      · intro h i x hx
        cases i with
        | zero => simp only [List.getElem?_cons_zero, Option.some.injEq] at hx; subst hx; simpa using hf
        | succ j =>
          simp only [List.getElem?_cons_succ] at hx
          have := h j x hx
          rwa [Nat.add_assoc, Nat.add_comm 1 j] at this
      · intro h i x hx
        have := h (i + 1) x (by simpa using hx)
        rwa [Nat.add_assoc, Nat.add_comm 1 i]

theorem hasDup_false_iff (l : List Nat) : hasDup l = false ↔ l.Nodup := by
  induction l with
  | nil => simp [hasDup]
  | cons x rest ih =>
    simp only [hasDup, Bool.or_eq_false_iff, ih, List.nodup_cons]
    constructor
    · rintro ⟨h1, h2⟩; exact ⟨by simpa using h1, h2⟩
    · rintro ⟨h1, h2⟩; exact ⟨by simpa using h1, h2⟩

/-! ### declarative per-item conditions -/

/-- the rules of `Input::check_without_signature` -/
def InputOk (p : Params) (tx : Tx) (idx : Nat) : Input → Prop
  | .coinSigned _ _ _ _ w => w < tx.witnesses.length
  | .messageCoinSigned _ _ _ w => w < tx.witnesses.length
  | .coinPredicate _ _ _ _ pl pdl _ => 0 < pl ∧ pl ≤ p.maxPredicateLength ∧ pdl ≤ p.maxPredicateDataLength
  | .messageCoinPredicate _ _ _ pl pdl _ => 0 < pl ∧ pl ≤ p.maxPredicateLength ∧ pdl ≤ p.maxPredicateDataLength
  | .messageDataSigned _ _ _ w dl => w < tx.witnesses.length ∧ 0 < dl ∧ dl ≤ p.maxMessageDataLength
  | .messageDataPredicate _ _ _ dl pl pdl _ =>
    0 < pl ∧ pl ≤ p.maxPredicateLength ∧ pdl ≤ p.maxPredicateDataLength ∧ 0 < dl ∧ dl ≤ p.maxMessageDataLength
  | .contract _ _ => contractOutputCount tx.outputs idx = 1

theorem checkInput_none_iff (p : Params) (tx : Tx) (idx : Nat) (i : Input) :
    checkInput p tx idx i = none ↔ InputOk p tx idx i := by
  cases i <;> simp only [checkInput, InputOk]
  case coinSigned => split <;> simp_all <;> omega
  case messageCoinSigned => split <;> simp_all <;> omega
  case contract => split <;> simp_all
  all_goals (repeat' split) <;> simp_all <;> omega

/-- the per-output rules of `check_common_part` -/
def OutputOk (p : Params) (tx : Tx) : Output → Prop
  | .contract i => ∃ u c, tx.inputs[i]? = some (.contract u c)
  | .change a => a ∈ inputAssetIds p.baseAsset tx.inputs
  | .coin a _ => a ∈ inputAssetIds p.baseAsset tx.inputs
  | _ => True

theorem checkOutput_none_iff (p : Params) (tx : Tx) (idx : Nat) (o : Output) :
    checkOutput p tx idx o = none ↔ OutputOk p tx o := by
  cases o <;> simp only [checkOutput, OutputOk]
  case contract i =>
    cases h : tx.inputs[i]? with
    | none => simp
    | some inp => cases inp <;> simp
  case change a => split <;> simp_all
  case coin a amt => split <;> simp_all

/-! ### `check_owner`, `check_common_part` -/

/-- the owner policy, if set, is the index of an input that has an owner -/
def OwnerOk (tx : Tx) : Prop :=
  ∀ o, tx.policies.owner = some o → o ≤ u32Max ∧ ∃ i, tx.inputs[o]? = some i ∧ i.owner?.isSome

theorem checkOwner_ok_iff (tx : Tx) (u : Unit) : checkOwner tx = .ok u ↔ OwnerOk tx := by
  unfold checkOwner OwnerOk
  cases ho : tx.policies.owner with
  | none => simp
  | some o =>
    simp only [Option.some.injEq, forall_eq']
    by_cases h1 : o > u32Max
    · simp only [h1, if_true, reduceCtorEq, false_iff]; omega
    · simp only [h1, if_false]
      by_cases h2 : o ≥ tx.inputs.length
      · simp only [h2, if_true, reduceCtorEq, false_iff]
        rintro ⟨_, i, hi, _⟩
        have := List.getElem?_eq_none h2
        simp [this] at hi
      · simp only [h2, if_false]
        have hlt : o < tx.inputs.length := by omega
        rw [List.getElem?_eq_getElem hlt]
        simp only [Option.bind_some, Option.some.injEq, exists_eq_left']
        cases hw : tx.inputs[o].owner? with
        | none => simp
        | some w => simp; omega

/-- the rules of `check_common_part`, in source order -/
def CommonOk (p : Params) (h : Nat) (tx : Tx) : Prop :=
  tx.size ≤ p.maxSize ∧
  tx.policies.isValid = true ∧
  (∀ l, tx.policies.witnessLimit = some l → witnessesDyn tx.witnesses ≤ l) ∧
  maxGasT p.gas p.fee (feeView tx) ≤ p.maxGasPerTx ∧
  tx.policies.maxFee.isSome = true ∧
  tx.policies.maturityHeight ≤ h ∧
  h ≤ tx.policies.expirationHeight ∧
  tx.inputs.length ≤ p.maxInputs ∧
  tx.outputs.length ≤ p.maxOutputs ∧
  tx.witnesses.length ≤ p.maxWitnesses ∧
  OwnerOk tx ∧
  (∃ i ∈ tx.inputs, i.isSpendable = true) ∧
  (∀ a ∈ inputAssetIds p.baseAsset tx.inputs, changeCount tx.outputs a ≤ 1) ∧
  (tx.inputs.filterMap Input.coinUtxo?).Nodup ∧
  (tx.inputs.filterMap Input.contractId?).Nodup ∧
  (tx.inputs.filterMap Input.nonce?).Nodup ∧
  (∀ (idx : Nat) (i : Input), tx.inputs[idx]? = some i → InputOk p tx idx i) ∧
  (∀ (idx : Nat) (o : Output), tx.outputs[idx]? = some o → OutputOk p tx o)

theorem checkCommonPart_ok_iff {p : Params} (hg : p.gas.Ok) (h : Nat) (tx : Tx) (u : Unit) :
    checkCommonPart p h tx = .ok u ↔ CommonOk p h tx := by
  unfold checkCommonPart CommonOk
  rw [maxGas_ok hg]
  have e1 : ∀ b : Bool, ((!b) = false) = (b = true) := by intro b; cases b <;> simp
  have e2 : ∀ o : Option Nat, (o.isNone = false) = (o.isSome = true) := by intro o; cases o <;> simp
  have e3 : (((inputAssetIds p.baseAsset tx.inputs).any fun a => decide (changeCount tx.outputs a > 1)) = false) =
      (∀ a ∈ inputAssetIds p.baseAsset tx.inputs, changeCount tx.outputs a ≤ 1) := by
    simp only [List.any_eq_false, decide_eq_true_eq, eq_iff_iff]
    constructor <;> intro h a ha <;> have := h a ha <;> omega
  cases hw : tx.policies.witnessLimit with
  | none =>
    simp only [bind_ok_iff, rejectIf_ok_iff, liftFirst_ok_iff, checkOwner_ok_iff, exists_const,
      e1, e2, e3, hasDup_false_iff, firstErr_none_iff, Nat.zero_add, checkInput_none_iff, checkOutput_none_iff,
      decide_eq_false_iff_not, Nat.not_lt, gt_iff_lt, List.any_eq_true, reduceCtorEq, false_imp_iff, implies_true, true_and]
  | some l =>
    simp only [bind_ok_iff, rejectIf_ok_iff, liftFirst_ok_iff, checkOwner_ok_iff, exists_const,
      e1, e2, e3, hasDup_false_iff, firstErr_none_iff, Nat.zero_add, checkInput_none_iff, checkOutput_none_iff,
      decide_eq_false_iff_not, Nat.not_lt, gt_iff_lt, List.any_eq_true, Option.some.injEq, forall_eq']

/-! ### `precompute`, `check_unique_rules` -/

theorem firstErr_none_iff_mem {α : Type} (f : Nat → α → Option VErr) (g : α → Option VErr)
    (hfg : ∀ k x, f k x = g x) (l : List α) (k : Nat) :
    firstErr f k l = none ↔ ∀ x ∈ l, g x = none := by
  rw [firstErr_none_iff]
  constructor
  · intro h x hx
    obtain ⟨i, hi⟩ := List.mem_iff_getElem?.mp hx
    rw [← hfg (k + i) x]; exact h i x hi
  · intro h i x hi
    rw [hfg]; exact h x (List.mem_of_getElem? hi)

/-- the metadata the checks need can be computed (`CreateMetadata::compute`, `UpgradeMetadata::compute`) -/
def MetadataOk (tx : Tx) : Prop :=
  match tx.body with
  | .create bwi _ => ∃ len, tx.witnesses[bwi]? = some len
  | .upgradeConsensus wi checksumOk deserOk => (∃ len, tx.witnesses[wi]? = some len) ∧ checksumOk = true ∧ deserOk = true
  | _ => True

theorem precompute_ok_iff (tx : Tx) (u : Unit) : precompute tx = .ok u ↔ MetadataOk tx := by
  unfold precompute MetadataOk
  cases tx.body with
  | create bwi slots => cases hw : tx.witnesses[bwi]? <;> simp [hw]
  | upgradeConsensus wi c d =>
    cases hw : tx.witnesses[wi]? with
    | none => simp [hw]
    | some len => cases c <;> cases d <;> simp [hw]
  | _ => simp

/-- Create / Upgrade / Upload / Blob accept only base-asset coins and message coins as inputs -/
def BaseOnlyInput (p : Params) (i : Input) : Prop :=
  (∀ a, i.assetId? p.baseAsset = some a → a = p.baseAsset) ∧ i.isContract = false ∧ i.isMessageData = false

theorem checkBaseOnlyInput_none_iff (p : Params) (k : Nat) (i : Input) :
    checkBaseOnlyInput p k i = none ↔ BaseOnlyInput p i := by
  unfold checkBaseOnlyInput BaseOnlyInput
  cases i <;> simp [Input.assetId?, Input.isContract, Input.isMessageData]

/-- outputs allowed in Upgrade / Upload / Blob: coins, and change of the base asset -/
def PlainOutput (p : Params) : Output → Prop
  | .coin _ _ => True
  | .change a => a = p.baseAsset
  | _ => False

theorem checkPlainOutput_none_iff (p : Params) (k : Nat) (o : Output) :
    checkPlainOutput p k o = none ↔ PlainOutput p o := by
  cases o <;> simp [checkPlainOutput, PlainOutput]

/-- outputs allowed in Create: coins, change of the base asset, a matching `ContractCreated` -/
def CreateOutput (p : Params) : Output → Prop
  | .coin _ _ => True
  | .change a => a = p.baseAsset
  | .contractCreated ok => ok = true
  | _ => False

def Output.isContractCreated : Output → Bool
  | .contractCreated _ => true
  | _ => false

def createdCount (outs : List Output) : Nat := (outs.filter Output.isContractCreated).length

theorem checkCreateOutputs_ok_iff (p : Params) (outs : List Output) :
    ∀ (c c' : Bool), checkCreateOutputs p c outs = .ok c' ↔
      ((∀ o ∈ outs, CreateOutput p o) ∧ createdCount outs + (if c then 1 else 0) ≤ 1 ∧
       c' = (c || decide (createdCount outs ≥ 1))) := by
  induction outs with
  | nil => intro c c'; cases c <;> cases c' <;> simp [checkCreateOutputs, createdCount]
  | cons o rest ih =>
    intro c c'
    cases o with
    | coin a amt =>
      simp only [checkCreateOutputs, ih, List.mem_cons, forall_eq_or_imp, CreateOutput, true_and, createdCount,
        List.filter_cons, Output.isContractCreated, Bool.false_eq_true, if_false]
      exact Iff.rfl
    | contract i => simp [checkCreateOutputs, CreateOutput]
    | «variable» => simp [checkCreateOutputs, CreateOutput]
    | change a =>
      simp only [checkCreateOutputs]
      by_cases h : a = p.baseAsset
      · simp only [h, ne_eq, not_true_eq_false, if_false, ih, List.mem_cons, forall_eq_or_imp, CreateOutput, true_and,
          createdCount, List.filter_cons, Output.isContractCreated, Bool.false_eq_true]
        exact Iff.rfl
      · simp [h, CreateOutput]
    | contractCreated ok =>
      simp only [checkCreateOutputs]
      cases ok with
      | false => simp [CreateOutput]
      | true =>
        cases c with
        | true =>
          simp only [Bool.not_true, Bool.false_eq_true, if_false, if_true, reduceCtorEq, false_iff, not_and]
          intro _ h
          simp [createdCount, Output.isContractCreated] at h
        | false =>
          simp only [Bool.not_true, Bool.false_eq_true, if_false, ih, List.mem_cons, forall_eq_or_imp, CreateOutput,
            true_and, createdCount, List.filter_cons, Output.isContractCreated, if_true, List.length_cons, Bool.false_or,
            Bool.true_or]
          constructor
          · rintro ⟨h1, h2, h3⟩; exact ⟨h1, by omega, by rw [h3]; simp⟩
          · rintro ⟨h1, h2, h3⟩; exact ⟨h1, by omega, by rw [h3]; simp⟩

theorem strictlySorted_iff (l : List Nat) : strictlySorted l = true ↔ l.Pairwise (· < ·) := by
  induction l with
  | nil => simp [strictlySorted]
  | cons a rest ih =>
    cases rest with
    | nil => simp [strictlySorted]
    | cons b rest' =>
      simp only [strictlySorted, Bool.and_eq_true, decide_eq_true_eq, ih]
      constructor
      · rintro ⟨hab, hp⟩
        refine List.pairwise_cons.mpr ⟨?_, hp⟩
        intro x hx
        simp only [List.mem_cons] at hx
        rcases hx with rfl | hx
        · exact hab
        · exact Nat.lt_trans hab ((List.pairwise_cons.mp hp).1 x hx)
      · intro hp
        obtain ⟨h1, h2⟩ := List.pairwise_cons.mp hp
        exact ⟨h1 b (by simp), h2⟩

/-- the kind-specific rules (`check_unique_rules`) -/
def KindOk (p : Params) (tx : Tx) : Prop :=
  match tx.body with
  | .script _ sl sdl =>
    sl ≤ p.maxScriptLength ∧ sdl ≤ p.maxScriptDataLength ∧ ∀ o ∈ tx.outputs, o.isContractCreated = false
  | .create bwi slots =>
    (∃ len, tx.witnesses[bwi]? = some len ∧ len ≤ p.contractMaxSize) ∧
    slots.length ≤ p.maxStorageSlots ∧ slots.Pairwise (· < ·) ∧
    (∀ i ∈ tx.inputs, BaseOnlyInput p i) ∧ (∀ o ∈ tx.outputs, CreateOutput p o) ∧ createdCount tx.outputs = 1
  | .upgradeConsensus _ _ _ | .upgradeState =>
    (∃ i ∈ tx.inputs, i.owner? = some p.privileged) ∧
    (∀ i ∈ tx.inputs, BaseOnlyInput p i) ∧ (∀ o ∈ tx.outputs, PlainOutput p o)
  | .upload wi n proofOk =>
    n ≤ p.maxBytecodeSubsections ∧ (∃ len, tx.witnesses[wi]? = some len) ∧ proofOk = true ∧
    (∀ i ∈ tx.inputs, BaseOnlyInput p i) ∧ (∀ o ∈ tx.outputs, PlainOutput p o)
  | .blob wi idOk =>
    (∃ len, tx.witnesses[wi]? = some len) ∧ idOk = true ∧
    (∀ i ∈ tx.inputs, BaseOnlyInput p i) ∧ (∀ o ∈ tx.outputs, PlainOutput p o)

theorem checkUniqueRules_ok_iff (p : Params) (tx : Tx) (u : Unit) : checkUniqueRules p tx = .ok u ↔ KindOk p tx := by
  have e1 : ∀ b : Bool, ((!b) = false) = (b = true) := by intro b; cases b <;> simp
  have hin := fun k => firstErr_none_iff_mem (checkBaseOnlyInput p) (checkBaseOnlyInput p 0) (fun _ _ => rfl) tx.inputs k
  have hout := fun k => firstErr_none_iff_mem (checkPlainOutput p) (checkPlainOutput p 0) (fun _ _ => rfl) tx.outputs k
  unfold checkUniqueRules KindOk
  cases hb : tx.body with
  | script g sl sdl =>
    simp only [bind_ok_iff, rejectIf_ok_iff, liftFirst_ok_iff, exists_const, decide_eq_false_iff_not, Nat.not_lt, gt_iff_lt]
    rw [firstErr_none_iff_mem checkScriptOutput (checkScriptOutput 0) (fun _ _ => rfl)]
    refine and_congr Iff.rfl (and_congr Iff.rfl ?_)
    constructor <;> intro h o ho <;> have := h o ho <;> cases o <;> simp_all [Output.isContractCreated, checkScriptOutput]
  | create bwi slots =>
    simp only
    cases hw : tx.witnesses[bwi]? with
    | none => simp [bind_ok_iff, throw, throwThe, MonadExceptOf.throw]
    | some len =>
      simp only [bind_ok_iff, rejectIf_ok_iff, liftFirst_ok_iff, exists_const, decide_eq_false_iff_not, Nat.not_lt,
        gt_iff_lt, e1, strictlySorted_iff, hin, checkBaseOnlyInput_none_iff, Option.some.injEq, exists_eq_left']
      refine and_congr Iff.rfl (and_congr Iff.rfl (and_congr Iff.rfl (and_congr Iff.rfl ?_)))
      cases hc : checkCreateOutputs p false tx.outputs with
      | error e =>
        simp only [throw, throwThe, MonadExceptOf.throw, reduceCtorEq, false_iff, not_and]
        intro h1 h2
        have := (checkCreateOutputs_ok_iff p tx.outputs false true).mpr ⟨h1, by simp; omega, by simp; omega⟩
        rw [hc] at this; cases this
      | ok created =>
        have := (checkCreateOutputs_ok_iff p tx.outputs false created).mp hc
        simp only [rejectIf_ok_iff, e1]
        obtain ⟨h1, h2, h3⟩ := this
        simp only [Bool.false_eq_true, if_false, Nat.add_zero, Bool.false_or] at h2 h3
        constructor
        · intro hcr; subst hcr
          refine ⟨h1, ?_⟩
          have : createdCount tx.outputs ≥ 1 := by simpa using h3.symm
          omega
        · rintro ⟨_, h⟩; rw [h3]; simp [h]
  | upgradeConsensus wi c d =>
    simp only [bind_ok_iff, rejectIf_ok_iff, liftFirst_ok_iff, exists_const, e1, hin, hout, checkBaseOnlyInput_none_iff,
      checkPlainOutput_none_iff, List.any_eq_true, beq_iff_eq]
  | upgradeState =>
    simp only [bind_ok_iff, rejectIf_ok_iff, liftFirst_ok_iff, exists_const, e1, hin, hout, checkBaseOnlyInput_none_iff,
      checkPlainOutput_none_iff, List.any_eq_true, beq_iff_eq]
  | upload wi n ok =>
    simp only
    cases hw : tx.witnesses[wi]? with
    | none => simp [bind_ok_iff, throw, throwThe, MonadExceptOf.throw]
    | some len =>
      simp only [bind_ok_iff, rejectIf_ok_iff, liftFirst_ok_iff, exists_const, e1, hin, hout, checkBaseOnlyInput_none_iff,
        checkPlainOutput_none_iff, decide_eq_false_iff_not, Nat.not_lt, gt_iff_lt, Option.some.injEq, exists_eq', true_and]
  | blob wi ok =>
    simp only
    cases hw : tx.witnesses[wi]? with
    | none => simp [bind_ok_iff, throw, throwThe, MonadExceptOf.throw]
    | some len =>
      simp only [bind_ok_iff, rejectIf_ok_iff, liftFirst_ok_iff, exists_const, e1, hin, hout, checkBaseOnlyInput_none_iff,
        checkPlainOutput_none_iff, Option.some.injEq, exists_eq', true_and]

/-! ### policies, declaratively -/

/-- `Policies::is_valid` on the modelled representation: maturity, expiration and owner fit `u32` -/
def PolicyBounds (pol : Policies) : Prop :=
  (∀ m, pol.maturity = some m → m ≤ u32Max) ∧ (∀ e, pol.expiration = some e → e ≤ u32Max) ∧
  (∀ o, pol.owner = some o → o ≤ u32Max)

theorem isValid_iff (pol : Policies) : pol.isValid = true ↔ PolicyBounds pol := by
  unfold Policies.isValid PolicyBounds
  cases pol.maturity <;> cases pol.expiration <;> cases pol.owner <;> simp [and_assoc]

theorem maturityHeight_le_iff {pol : Policies} (hb : PolicyBounds pol) (h : Nat) :
    pol.maturityHeight ≤ h ↔ ∀ m, pol.maturity = some m → m ≤ h := by
  unfold Policies.maturityHeight
  cases hm : pol.maturity with
  | none => simp
  | some m =>
    have := hb.1 m hm
    simp [this]

theorem le_expirationHeight_iff {pol : Policies} (hb : PolicyBounds pol) {h : Nat} (hh : h ≤ u32Max) :
    h ≤ pol.expirationHeight ↔ ∀ e, pol.expiration = some e → h ≤ e := by
  unfold Policies.expirationHeight
  cases he : pol.expiration with
  | none => simpa using hh
  | some e =>
    have := hb.2.1 e he
    simp [this]

/-- an asset that occurs among `input_asset_ids` is the base asset or has a coin input, hence a balance entry -/
theorem hasEntry_of_mem_inputAssetIds {p : Params} {tx : Tx} {a : Nat}
    (h : a ∈ inputAssetIds p.baseAsset tx.inputs) : HasEntry p tx a := by
  unfold inputAssetIds at h
  obtain ⟨i, hi, hia⟩ := List.mem_filterMap.mp h
  unfold HasEntry
  cases i <;> simp only [Input.assetId?, Option.some.injEq, reduceCtorEq] at hia
  case coinSigned => exact Or.inr ⟨_, hi, by simp [Input.entry?, hia]⟩
  case coinPredicate => exact Or.inr ⟨_, hi, by simp [Input.entry?, hia]⟩
  all_goals exact Or.inl hia.symm

end FuelVerif.Validity
