/- Helper lemmas and the abstract upload specification for C35. -/
import FuelVerif.Model.Tables
import FuelVerif.Gen.UpgradeOrder
namespace FuelVerif.Tables
open FuelVerif

/-! ### structure equalities -/

theorem T_ext_blobs (t : T) (b : Bytes → Option Bytes) (h : b = t.blobs) : { t with blobs := b } = t := by
  subst h; rfl
theorem T_ext_cp (t : T) (c : Nat → Option Bytes) (h : c = t.cpVersions) : { t with cpVersions := c } = t := by
  subst h; rfl
theorem T_ext_st (t : T) (c : Nat → Option Bytes) (h : c = t.stVersions) : { t with stVersions := c } = t := by
  subst h; rfl

theorem updN_restore {α : Type} (f : Nat → Option α) (k : Nat) (v p : α) (h : f k = some p) :
    updN (updN f k (some v)) k (some p) = f := by
  funext k'
  by_cases c : k' = k
  · subst c; simp [updN, h]
  · simp [updN, c]

/-! ### deploy -/

theorem insertSlots_other (slots : Bytes × Bytes → Option Bytes) (id : Bytes) (l : List (Bytes × Bytes)) (q : Bytes × Bytes)
    (hq : q.1 ≠ id) : insertSlots slots id l q = slots q := by
  induction l generalizing slots with
  | nil => rfl
  | cons kv rest ih =>
    obtain ⟨k, v⟩ := kv
    simp only [insertSlots]
    rw [ih]
    have : q ≠ (id, k) := fun e => hq (by rw [e])
    simp [this]

theorem insertSlots_notin (slots : Bytes × Bytes → Option Bytes) (id : Bytes) (l : List (Bytes × Bytes)) (k : Bytes)
    (hk : k ∉ l.map (·.1)) : insertSlots slots id l (id, k) = slots (id, k) := by
  induction l generalizing slots with
  | nil => rfl
  | cons kv rest ih =>
    obtain ⟨k', v⟩ := kv
    simp only [List.map_cons, List.mem_cons, not_or] at hk
    simp only [insertSlots]
    rw [ih _ hk.2]
    have : (id, k) ≠ (id, k') := fun e => hk.1 (by injection e)
    simp [this]

theorem insertSlots_mem (slots : Bytes × Bytes → Option Bytes) (id : Bytes) (l : List (Bytes × Bytes))
    (hnd : (l.map (·.1)).Nodup) (k v : Bytes) (hm : (k, v) ∈ l) : insertSlots slots id l (id, k) = some v := by
  induction l generalizing slots with
  | nil => cases hm
  | cons kv rest ih =>
    obtain ⟨k', v'⟩ := kv
    simp only [List.map_cons, List.nodup_cons] at hnd
    simp only [insertSlots]
    rcases List.mem_cons.mp hm with e | hm'
    · injection e with e1 e2
      subst e1; subst e2
      rw [insertSlots_notin _ _ _ _ hnd.1]
      simp
    · exact ih _ hnd.2 hm'

/-- no transaction changes the code of an existing contract -/
theorem step_keeps_contract (restore : Bool) (t : T) (op : Op) (id code : Bytes) (h : t.contracts id = some code) :
    (step restore t op).1.contracts id = some code := by
  cases op with
  | deploy id' code' slots =>
    simp only [step, deploy]
    by_cases c : (t.contracts id').isSome
    · simp [c, h]
    · simp only [c, Bool.false_eq_true, if_false]
      have : id ≠ id' := by
        intro e; subst e; simp [h] at c
      simp [updB, this, h]
  | blob id' data =>
    simp only [step, blob]
    split <;> exact h
  | upload root i n part =>
    simp only [step, upload]
    split
    · exact h
    · split <;> exact h
  | upgradeCp p =>
    simp only [step, upgradeCp]
    split
    · cases restore <;> exact h
    · exact h
  | upgradeSt r =>
    simp only [step, upgradeSt]
    split
    · exact h
    · split
      · cases restore <;> exact h
      · exact h
  | setVersions cp st => exact h

/-! ### the upload specification: per root, the parts accepted so far (in order) and whether it is complete -/

abbrev USpec := Bytes → List Bytes × Bool

def specEmpty : USpec := fun _ => ([], false)

def specUpload (sp : USpec) (root : Bytes) (i total : Nat) (part : Bytes) : USpec :=
  if (sp root).2 = false ∧ i = (sp root).1.length ∧ (sp root).1.length + 1 ≤ total ∧ (sp root).1.length + 1 ≤ 65535
  then updB sp root ((sp root).1 ++ [part], decide (total = (sp root).1.length + 1)) else sp

def specStep (sp : USpec) : Op → USpec
  | .upload root i total part => specUpload sp root i total part
  | _ => sp

def specRun : USpec → List Op → USpec
  | sp, [] => sp
  | sp, op :: rest => specRun (specStep sp op) rest

/-- table entry that represents a specification entry -/
def enc : List Bytes × Bool → Option Uploaded
  | (parts, true) => some (.completed parts.flatten)
  | ([], false) => none
  | (parts, false) => some (.uncompleted parts.flatten parts.length)

def URel (t : T) (sp : USpec) : Prop := ∀ root, t.uploaded root = enc (sp root)

theorem urel_empty : URel T.empty specEmpty := fun _ => rfl

theorem enc_completed_iff (e : List Bytes × Bool) (bs : Bytes) :
    enc e = some (.completed bs) ↔ e.2 = true ∧ bs = e.1.flatten := by
  obtain ⟨parts, done⟩ := e
  cases done with
  | true => simp [enc]; exact eq_comm
  | false => cases parts <;> simp [enc]

theorem enc_uncompleted_iff (e : List Bytes × Bool) (bs : Bytes) (n : Nat) :
    enc e = some (.uncompleted bs n) ↔ e.2 = false ∧ e.1 ≠ [] ∧ n = e.1.length ∧ bs = e.1.flatten := by
  obtain ⟨parts, done⟩ := e
  cases done with
  | true => simp [enc]
  | false =>
    cases parts with
    | nil => simp [enc]
    | cons p ps =>
      show some (Uploaded.uncompleted (p :: ps).flatten (p :: ps).length) = some (.uncompleted bs n) ↔ _
      constructor
      · intro h; cases h; exact ⟨rfl, by simp, rfl, rfl⟩
      · rintro ⟨-, -, a, b⟩; subst a; subst b; rfl

theorem getD_enc (e : List Bytes × Bool) (h : e.2 = false) :
    (enc e).getD (.uncompleted [] 0) = .uncompleted e.1.flatten e.1.length := by
  obtain ⟨parts, done⟩ := e
  simp only at h
  subst h
  cases parts <;> simp [enc]

theorem upload_urel (t : T) (sp : USpec) (root : Bytes) (i total : Nat) (part : Bytes) (h : URel t sp) :
    URel (upload t root i total part).1 (specUpload sp root i total part) := by
  unfold upload specUpload
  rw [h root]
  cases hd : (sp root).2 with
  | true =>
    have : enc (sp root) = some (.completed (sp root).1.flatten) := by
      rw [show sp root = ((sp root).1, (sp root).2) from rfl, hd]; rfl
    simp [this]
    exact h
  | false =>
    rw [getD_enc _ hd]
    simp only [uploadSubsection]
    by_cases h1 : i ≠ (sp root).1.length
    · have : ¬ (i = (sp root).1.length) := h1
      simp [h1, this]; exact h
    · have h1' : i = (sp root).1.length := by omega
      simp only [h1, if_false]
      by_cases h2 : (sp root).1.length + 1 > 65535
      · have : ¬ ((sp root).1.length + 1 ≤ 65535) := by omega
        simp [h2, this]; exact h
      · simp only [h2, if_false]
        by_cases h3 : (sp root).1.length + 1 > total
        · have : ¬ ((sp root).1.length + 1 ≤ total) := by omega
          simp [h3, this]; exact h
        · simp only [h3, if_false]
          have hc : True ∧ i = (sp root).1.length ∧ (sp root).1.length + 1 ≤ total ∧ (sp root).1.length + 1 ≤ 65535 :=
            ⟨trivial, h1', by omega, by omega⟩
          simp only [h1', true_and, hc.2.2.1, hc.2.2.2, and_self, if_true]
          by_cases h4 : total = (sp root).1.length + 1
          · simp only [h4, if_true, decide_true]
            intro r
            by_cases c : r = root
            · subst c
              simp [updB, enc]
            · simp only [updB, c, if_false]; exact h r
          · simp only [h4, if_false, decide_false]
            intro r
            by_cases c : r = root
            · subst c
              simp only [updB, if_true]
              cases hp : (sp r).1 with
              | nil => simp [enc]
              | cons p ps => simp [enc]
            · simp only [updB, c, if_false]; exact h r

theorem step_urel (restore : Bool) (t : T) (sp : USpec) (op : Op) (h : URel t sp) :
    URel (step restore t op).1 (specStep sp op) := by
  cases op with
  | upload root i n part => exact upload_urel t sp root i n part h
  | deploy id code slots =>
    simp only [step, deploy, specStep]
    split <;> exact h
  | blob id data =>
    simp only [step, blob, specStep]
    split <;> exact h
  | upgradeCp p =>
    simp only [step, upgradeCp, specStep]
    split
    · cases restore <;> exact h
    · exact h
  | upgradeSt r =>
    simp only [step, upgradeSt, specStep]
    split
    · exact h
    · split
      · cases restore <;> exact h
      · exact h
  | setVersions cp st => exact h

/-! ### failed transactions -/

/-- a blob transaction whose id is already stored carries the stored data -/
def OpOk (t : T) : Op → Prop
  | .blob id data => ∀ old, t.blobs id = some old → old = data
  | _ => True

theorem step_failed_unchanged_partial (restore : Bool) (t : T) (op : Op)
    (hok : OpOk t op) (e : Err)
    (hne : e ≠ .OverridingConsensusParameters ∧ e ≠ .OverridingStateTransactionBytecode)
    (h : (step restore t op).2 = .error e) : (step restore t op).1 = t := by
  cases op with
  | deploy id code slots =>
    simp only [step, deploy] at h ⊢
    split at h
    · rename_i c; simp [c]
    · cases h
  | blob id data =>
    simp only [step, blob] at h ⊢
    cases ho : t.blobs id with
    | none => simp [ho] at h
    | some old =>
      have := hok old ho
      subst this
      simp only [ho, Option.isSome_some, if_true]
      exact T_ext_blobs t _ (funext fun id' => by
        by_cases c : id' = id
        · subst c; simp [updB, ho]
        · simp [updB, c])
  | upload root i n part =>
    simp only [step, upload] at h ⊢
    cases hc : (t.uploaded root).getD (.uncompleted [] 0) with
    | completed bc => simp only [hc]
    | uncompleted bc k =>
      simp only [hc] at h ⊢
      cases hu : uploadSubsection bc k i n part with
      | error e' => simp only [hu]
      | ok new => simp [hu] at h
  | upgradeCp p =>
    simp only [step, upgradeCp] at h
    split at h
    · simp only [Except.error.injEq] at h
      exact absurd h.symm hne.1
    · cases h
  | upgradeSt r =>
    simp only [step, upgradeSt] at h ⊢
    split at h
    · rename_i c; simp [c]
    · split at h
      · simp only [Except.error.injEq] at h
        exact absurd h.symm hne.2
      · cases h
  | setVersions cp st => simp [step] at h

theorem step_failed_unchanged_restore (t : T) (op : Op) (e : Err) (h : (step true t op).2 = .error e)
    (he : e = .OverridingConsensusParameters ∨ e = .OverridingStateTransactionBytecode) : (step true t op).1 = t := by
  cases op with
  | upgradeCp p =>
    simp only [step, upgradeCp] at h ⊢
    cases hp : t.cpVersions (nextVersion t.curCp) with
    | none => simp [hp] at h
    | some prev =>
      simp only [if_true]
      exact T_ext_cp t _ (updN_restore _ _ _ _ hp)
  | upgradeSt r =>
    simp only [step, upgradeSt] at h ⊢
    by_cases c : containsRoot t r = true
    · simp only [c, Bool.not_true, Bool.false_eq_true, if_false] at h ⊢
      cases hp : t.stVersions (nextVersion t.curSt) with
      | none => simp [hp] at h
      | some prev =>
        simp only [if_true]
        exact T_ext_st t _ (updN_restore _ _ _ _ hp)
    · simp [c]
  | deploy id code slots =>
    simp only [step, deploy] at h
    split at h
    · simp only [Except.error.injEq] at h; subst h; rcases he with x | x <;> cases x
    · cases h
  | blob id data =>
    simp only [step, blob] at h
    split at h
    · simp only [Except.error.injEq] at h; subst h; rcases he with x | x <;> cases x
    · cases h
  | upload root i n part =>
    exfalso
    simp only [step, upload] at h
    split at h
    · simp only [Except.error.injEq] at h; subst h; rcases he with x | x <;> cases x
    · split at h
      · rename_i bc k c e' c2
        simp only [Except.error.injEq] at h
        subst h
        simp only [uploadSubsection] at c2
        split at c2
        · cases c2; rcases he with x | x <;> cases x
        · split at c2
          · cases c2; rcases he with x | x <;> cases x
          · split at c2
            · cases c2; rcases he with x | x <;> cases x
            · split at c2 <;> cases c2
      · cases h
  | setVersions cp st => simp [step] at h

/-- the F7 witness: consensus-parameter version 1 already holds `[1]` -/
def f7Tables : T := { T.empty with cpVersions := fun v => if v = 1 then some [1] else none }

end FuelVerif.Tables
