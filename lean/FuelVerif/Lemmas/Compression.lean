/- Helper lemmas for C07. -/
import FuelVerif.Model.Compression
namespace FuelVerif.Compression

/-! ### RegistryKey::next -/

theorem keyDefault_val : keyDefault = 16777215 := by decide +kernel

theorem keyNext_spec (k : Nat) (h : k < keyDefault) :
    ∃ k', keyNext k = .ok k' ∧ k' < keyDefault ∧ k' = (k + 1) % keyDefault := by
  have hd := keyDefault_val
  unfold keyNext
  have h1 : k ≠ keyDefault := by omega
  simp only [h1, if_false]
  by_cases h2 : k + 1 = keyDefault
  · simp only [h2, if_true]
    exact ⟨0, rfl, by omega, by simp⟩
  · simp only [h2, if_false]
    have h3 : keyTryFromU32 (k + 1) = some (k + 1) := by
      unfold keyTryFromU32
      have : 256 ^ Gen.Fields.registryKeySize = 16777216 := by decide +kernel
      rw [this]
      have : (k + 1) / 16777216 = 0 := by omega
      simp [this]
    rw [h3]
    refine ⟨k + 1, rfl, by omega, ?_⟩
    rw [Nat.mod_eq_of_lt (by omega)]

theorem mod_step (k n M : Nat) : ((k + 1) % M + n) % M = (k + (n + 1)) % M := by
  rw [Nat.add_mod, Nat.mod_mod, ← Nat.add_mod]
  congr 1
  omega

theorem mod_period (k n M : Nat) (hk : k < M) (hn : 0 < n) (hlt : n < M) : (k + n) % M ≠ k := by
  by_cases hc : k + n < M
  · rw [Nat.mod_eq_of_lt hc]; omega
  · have : (k + n) % M = k + n - M := by
      rw [Nat.mod_eq_sub_mod (by omega), Nat.mod_eq_of_lt (by omega)]
    omega

/-- `next` applied n times (stops at the first panic) -/
def iterNext : Nat → Nat → Except String Nat
  | 0, k => .ok k
  | n + 1, k =>
    match keyNext k with
    | .ok k' => iterNext n k'
    | .error e => .error e

theorem iterNext_spec (k n : Nat) (h : k < keyDefault) : iterNext n k = .ok ((k + n) % keyDefault) := by
  induction n generalizing k with
  | zero => simp [iterNext, Nat.mod_eq_of_lt h]
  | succ n ih =>
    obtain ⟨k', h1, h2, h3⟩ := keyNext_spec k h
    simp only [iterNext, h1]
    rw [ih k' h2, h3, mod_step]

theorem iterNext_period (k : Nat) (h : k < keyDefault) :
    iterNext keyDefault k = .ok k ∧ ∀ n, 0 < n → n < keyDefault → iterNext n k ≠ .ok k := by
  constructor
  · rw [iterNext_spec k _ h]
    have : (k + keyDefault) % keyDefault = k := by rw [Nat.add_mod_right, Nat.mod_eq_of_lt h]
    rw [this]
  · intro n hn hlt
    rw [iterNext_spec k n h]
    intro heq
    injection heq with heq
    exact mod_period k n keyDefault h hn hlt heq

/-! ### prepare_sign after the round trip -/

theorem zeroVal_idem (v : Val) : zeroVal (zeroVal v) = zeroVal v := by
  cases v <;> simp [zeroVal, zeros]

theorem mode_skipDefault {T : FieldTable} {l : Leaf} (h : mode T l = .skipDefault) :
    ∃ s ∈ l.path, T.skip s = true ∧ T.restored s = false := by
  unfold mode skipSeg at h
  cases hf : l.path.find? T.skip with
  | none =>
    rw [hf] at h
    simp only [] at h
    split at h
    · cases h
    · split at h
      · cases h
      · split at h <;> cases h
  | some s =>
    rw [hf] at h
    simp only [] at h
    refine ⟨s, List.mem_of_find?_eq_some hf, List.find?_some hf, ?_⟩
    by_cases hr : T.restored s = true
    · simp [hr] at h
    · simpa using hr

theorem strip_restoreDefaults (T : FieldTable) (l : Leaf)
    (hT : ∀ s ∈ l.path, T.skip s = true → T.restored s = true ∨ T.zeroed s = true) :
    strip T (restoreDefaults T l) = strip T l := by
  unfold restoreDefaults
  cases hm : mode T l with
  | skipDefault =>
    obtain ⟨s, hs, hsk, hnr⟩ := mode_skipDefault hm
    have hz : T.zeroed s = true := by
      rcases hT s hs hsk with h | h
      · rw [hnr] at h; cases h
      · exact h
    have hany : l.path.any T.zeroed = true := List.any_eq_true.2 ⟨s, hs, hz⟩
    simp [strip, hany, zeroVal_idem]
  | normal => rfl
  | skipRestored => rfl
  | registry ks => rfl
  | utxo => rfl
  | unmodelled => rfl

theorem strip_restoreDefaults_list (T : FieldTable) (tx : List Leaf)
    (hT : ∀ l ∈ tx, ∀ s ∈ l.path, T.skip s = true → T.restored s = true ∨ T.zeroed s = true) :
    (tx.map (restoreDefaults T)).map (strip T) = tx.map (strip T) := by
  rw [List.map_map]
  apply List.map_congr_left
  intro l hl
  exact strip_restoreDefaults T l (hT l hl)

/-- skipped fields without content: metadata caches (`canonical(skip)`, never encoded) and `PhantomData` -/
def NoContent (s : Seg) : Prop :=
  Gen.Fields.compressFields.any (fun r => r.1 == s.1 && r.2.1 == s.2 && (r.2.2.2.1 || r.1 == "Empty")) = true

theorem gen_skip_all :
    Gen.Fields.compressFields.all (fun r =>
      !r.2.2.1 || genTable.zeroed (r.1, r.2.1) || genTable.restored (r.1, r.2.1) || r.2.2.2.1 || r.1 == "Empty") = true := by
  decide +kernel

theorem gen_skip_cases (s : Seg) (hs : genTable.skip s = true) :
    genTable.restored s = true ∨ genTable.zeroed s = true ∨ NoContent s := by
  simp only [genTable, List.any_eq_true] at hs
  obtain ⟨r, hr, hcond⟩ := hs
  have hall := List.all_eq_true.1 gen_skip_all r hr
  simp only [Bool.and_eq_true, beq_iff_eq] at hcond
  obtain ⟨⟨h1, h2⟩, h3⟩ := hcond
  have hseg : s = (r.1, r.2.1) := by cases s; simp_all
  subst hseg
  simp only [h3, Bool.not_true, Bool.false_or, Bool.or_eq_true] at hall
  rcases hall with ((hz | hre) | hc) | he
  · right; left; exact hz
  · left; exact hre
  · right; right
    unfold NoContent
    exact List.any_eq_true.2 ⟨r, hr, by simp [hc]⟩
  · right; right
    unfold NoContent
    exact List.any_eq_true.2 ⟨r, hr, by simp [he]⟩

/-! ### round trip for any context satisfying the laws -/

section Laws
variable {C : Type}

/-- what a context must guarantee. `Prot c ks k`: key `k` of keyspace `ks` was handed out during the compression of
the current transaction and is protected from eviction until it ends. -/
structure CtxLaws (ops : CtxOps C) where
  Good : C → Prop
  Prot : C → String → Nat → Prop
  reg_ok : ∀ c ks v k c', Good c → ops.regCompress c ks v = .ok (k, c') →
    Good c' ∧ ops.regDecompress c' ks k = some v ∧ Prot c' ks k ∧
    (∀ ks0 k0 v0, Prot c ks0 k0 → ops.regDecompress c ks0 k0 = some v0 →
      Prot c' ks0 k0 ∧ ops.regDecompress c' ks0 k0 = some v0) ∧
    (∀ k0 v0, ops.utxoDecompress c k0 = some v0 → ops.utxoDecompress c' k0 = some v0) ∧
    (∀ g p, ops.info c' g p = ops.info c g p)
  utxo_ok : ∀ c v k c', Good c → ops.utxoCompress c v = .ok (k, c') →
    Good c' ∧ ops.utxoDecompress c' k = some v ∧
    (∀ ks0 k0 v0, Prot c ks0 k0 → ops.regDecompress c ks0 k0 = some v0 →
      Prot c' ks0 k0 ∧ ops.regDecompress c' ks0 k0 = some v0) ∧
    (∀ k0 v0, ops.utxoDecompress c k0 = some v0 → ops.utxoDecompress c' k0 = some v0) ∧
    (∀ g p, ops.info c' g p = ops.info c g p)

variable (ops : CtxOps C) (L : CtxLaws ops) (T : FieldTable)

/-- the context holds the referenced data of the transaction: every restored field is found with its value -/
def InfoAgrees (c : C) (tx : List Leaf) : Prop :=
  ∀ l ∈ tx, mode T l = .skipRestored → ops.info c l.group l.path = some l.val

/-- bindings made so far in this transaction survive -/
def Stable (c c' : C) : Prop :=
  (∀ ks k v, L.Prot c ks k → ops.regDecompress c ks k = some v → L.Prot c' ks k ∧ ops.regDecompress c' ks k = some v) ∧
  (∀ k v, ops.utxoDecompress c k = some v → ops.utxoDecompress c' k = some v) ∧
  (∀ g p, ops.info c' g p = ops.info c g p)

theorem Stable.refl (c : C) : Stable ops L c c := ⟨fun _ _ _ h1 h2 => ⟨h1, h2⟩, fun _ _ h => h, fun _ _ => rfl⟩

theorem Stable.trans {a b c : C} (h1 : Stable ops L a b) (h2 : Stable ops L b c) : Stable ops L a c := by
  refine ⟨?_, ?_, ?_⟩
  · intro ks k v hp hd
    obtain ⟨hp', hd'⟩ := h1.1 ks k v hp hd
    exact h2.1 ks k v hp' hd'
  · intro k v h; exact h2.2.1 k v (h1.2.1 k v h)
  · intro g p; rw [h2.2.2 g p, h1.2.2 g p]

/-- one field: the context stays good, earlier bindings survive, and the field decompresses to its expected value
in every later context of the same transaction -/
theorem compressLeaf_ok (c c' : C) (l : Leaf) (cl : CLeaf) (hg : L.Good c)
    (hinfo : mode T l = .skipRestored → ops.info c l.group l.path = some l.val)
    (h : compressLeaf ops T c l = .ok (cl, c')) :
    L.Good c' ∧ Stable ops L c c' ∧
    ∀ c'', Stable ops L c' c'' → decompressLeaf ops T c'' l cl = some (restoreDefaults T l) := by
  unfold compressLeaf at h
  cases hm : mode T l with
  | normal =>
    rw [hm] at h; injection h with h; injection h with h1 h2; subst h1; subst h2
    refine ⟨hg, Stable.refl ops L c, ?_⟩
    intro c'' _
    simp [decompressLeaf, restoreDefaults, hm]
  | skipDefault =>
    rw [hm] at h; injection h with h; injection h with h1 h2; subst h1; subst h2
    refine ⟨hg, Stable.refl ops L c, ?_⟩
    intro c'' _
    simp [decompressLeaf, restoreDefaults, hm]
  | skipRestored =>
    rw [hm] at h; injection h with h; injection h with h1 h2; subst h1; subst h2
    refine ⟨hg, Stable.refl ops L c, ?_⟩
    intro c'' hs
    have := hinfo hm
    simp [decompressLeaf, restoreDefaults, hm, hs.2.2, this]
  | unmodelled => rw [hm] at h; cases h
  | registry ks =>
    rw [hm] at h
    simp only [] at h
    cases hr : ops.regCompress c ks l.val with
    | error e => rw [hr] at h; cases h
    | ok p =>
      obtain ⟨k, c1⟩ := p
      rw [hr] at h
      injection h with h; injection h with h1 h2; subst h1; subst h2
      obtain ⟨hg', hd, hp, hpres, hu, hi⟩ := L.reg_ok c ks l.val k c1 hg hr
      refine ⟨hg', ⟨hpres, hu, hi⟩, ?_⟩
      intro c'' hs
      have := (hs.1 ks k l.val hp hd).2
      simp [decompressLeaf, restoreDefaults, hm, this]
  | utxo =>
    rw [hm] at h
    simp only [] at h
    cases hr : ops.utxoCompress c l.val with
    | error e => rw [hr] at h; cases h
    | ok p =>
      obtain ⟨k, c1⟩ := p
      rw [hr] at h
      injection h with h; injection h with h1 h2; subst h1; subst h2
      obtain ⟨hg', hd, hpres, hu, hi⟩ := L.utxo_ok c l.val k c1 hg hr
      refine ⟨hg', ⟨hpres, hu, hi⟩, ?_⟩
      intro c'' hs
      have := hs.2.1 k l.val hd
      simp [decompressLeaf, restoreDefaults, hm, this]

theorem compressAll_ok (c c' : C) (tx : List Leaf) (cls : List CLeaf) (hg : L.Good c)
    (hinfo : InfoAgrees ops T c tx)
    (h : compressAll ops T c tx = .ok (cls, c')) :
    L.Good c' ∧ Stable ops L c c' ∧
    ∀ c'', Stable ops L c' c'' → decompressAll ops T c'' tx cls = some (tx.map (restoreDefaults T)) := by
  induction tx generalizing c cls with
  | nil =>
    simp only [compressAll] at h
    injection h with h; injection h with h1 h2; subst h1; subst h2
    exact ⟨hg, Stable.refl ops L c, fun _ _ => rfl⟩
  | cons l rest ih =>
    simp only [compressAll] at h
    cases h1 : compressLeaf ops T c l with
    | error e => rw [h1] at h; cases h
    | ok p =>
      obtain ⟨cl, c1⟩ := p
      rw [h1] at h
      simp only [] at h
      cases h2 : compressAll ops T c1 rest with
      | error e => rw [h2] at h; cases h
      | ok q =>
        obtain ⟨cls', c2⟩ := q
        rw [h2] at h
        injection h with h; injection h with e1 e2; subst e1; subst e2
        obtain ⟨hg1, hs1, hd1⟩ := compressLeaf_ok ops L T c c1 l cl hg (hinfo l (List.mem_cons_self ..)) h1
        have hinfo1 : InfoAgrees ops T c1 rest := by
          intro l' hl' hm'
          rw [hs1.2.2]
          exact hinfo l' (List.mem_cons_of_mem _ hl') hm'
        obtain ⟨hg2, hs2, hd2⟩ := ih c1 cls' hg1 hinfo1 h2
        refine ⟨hg2, Stable.trans ops L hs1 hs2, ?_⟩
        intro c'' hs
        have a := hd1 c'' (Stable.trans ops L hs2 hs)
        have b := hd2 c'' hs
        simp [decompressAll, a, b]

theorem decompress_compress_aux (c c' : C) (tx : List Leaf) (cls : List CLeaf)
    (hinfo : InfoAgrees ops T c tx) (hg : L.Good c)
    (hc : compressAll ops T c tx = .ok (cls, c')) :
    decompressAll ops T c' tx cls = some (tx.map (restoreDefaults T)) :=
  (compressAll_ok ops L T c c' tx cls hg hinfo hc).2.2 c' (Stable.refl ops L c')

end Laws

/-! ### the ring context satisfies the laws -/

section ListLemmas
variable {α β : Type} [BEq α] [LawfulBEq α]

theorem lookup_cons_self (k : α) (v : β) (l : List (α × β)) : ((k, v) :: l).lookup k = some v := by
  simp [List.lookup]

theorem lookup_cons_ne (k k0 : α) (v : β) (l : List (α × β)) (h : k0 ≠ k) : ((k, v) :: l).lookup k0 = l.lookup k0 := by
  have : (k0 == k) = false := by simpa using h
  simp [List.lookup, this]

theorem lookup_filter_ne (l : List (α × β)) (k k0 : α) (h : k0 ≠ k) :
    (l.filter (fun e => e.1 != k)).lookup k0 = l.lookup k0 := by
  induction l with
  | nil => rfl
  | cons x xs ih =>
    obtain ⟨a, b⟩ := x
    by_cases ha : a = k
    · subst ha
      have : ((a != a) = false) := by simp
      simp only [List.filter, this]
      rw [ih, lookup_cons_ne a k0 b xs h]
    · have : ((a != k) = true) := by simpa using ha
      simp only [List.filter, this]
      by_cases h0 : k0 = a
      · subst h0; simp [lookup_cons_self]
      · rw [lookup_cons_ne a k0 b _ h0, lookup_cons_ne a k0 b _ h0, ih]

theorem lookup_of_mem_nodup {l : List (α × β)} (hn : (l.map (·.1)).Nodup) {k : α} {v : β} (hm : (k, v) ∈ l) :
    l.lookup k = some v := by
  induction l with
  | nil => cases hm
  | cons x xs ih =>
    obtain ⟨a, b⟩ := x
    simp only [List.map_cons, List.nodup_cons] at hn
    rcases List.mem_cons.1 hm with h | h
    · injection h with h1 h2; subst h1; subst h2; exact lookup_cons_self ..
    · have hne : k ≠ a := by
        intro he; subst he
        exact hn.1 (List.mem_map.2 ⟨(k, v), h, rfl⟩)
      rw [lookup_cons_ne a k b xs hne]
      exact ih hn.2 h

theorem nodup_cons_filter (l : List (α × β)) (k : α) (v : β) (hn : (l.map (·.1)).Nodup) :
    (((k, v) :: l.filter (fun e => e.1 != k)).map (·.1)).Nodup := by
  simp only [List.map_cons, List.nodup_cons]
  constructor
  · intro hm
    obtain ⟨e, he, hk⟩ := List.mem_map.1 hm
    have := (List.mem_filter.1 he).2
    simp at this
    exact this hk
  · exact List.Nodup.sublist (List.Sublist.map _ List.filter_sublist) hn

end ListLemmas

/-- invariant of the ring context: keys are unique inside every keyspace -/
def RingGood (r : Ring) : Prop := ∀ ks, ((getReg r ks).entries.map (·.1)).Nodup

theorem getReg_setReg_same (r : Ring) (ks : String) (g : Registry) : getReg (setReg r ks g) ks = g := by
  simp [getReg, setReg, List.lookup]

theorem getReg_setReg_ne (r : Ring) (ks ks0 : String) (g : Registry) (h : ks0 ≠ ks) :
    getReg (setReg r ks g) ks0 = getReg r ks0 := by
  unfold getReg setReg
  simp only []
  rw [lookup_cons_ne ks ks0 g _ h, lookup_filter_ne r.regs ks ks0 h]

theorem findFree_not_touched (size : Nat) (touched : List Nat) (fuel k k' : Nat)
    (h : findFree size touched fuel k = some k') : touched.contains k' = false := by
  induction fuel generalizing k with
  | zero => simp [findFree] at h
  | succ n ih =>
    simp only [findFree] at h
    split at h
    · exact ih _ h
    · rename_i hc
      injection h with h; subst h
      simpa using hc

theorem indexOf_get (v : Val) (l : List Val) (i : Nat) (h : indexOf v l = some i) : l[i]? = some v := by
  induction l generalizing i with
  | nil => simp [indexOf] at h
  | cons x xs ih =>
    simp only [indexOf] at h
    split at h
    · rename_i hx; injection h with h; subst h; simp [hx]
    · cases hi : indexOf v xs with
      | none => rw [hi] at h; simp at h
      | some j =>
        rw [hi] at h
        simp at h
        subst h
        simpa using ih j hi

def ringProt (r : Ring) (ks : String) (k : Nat) : Prop := (ks, k) ∈ r.touched

theorem ring_reg_ok (c : Ring) (ks : String) (v : Val) (k : Nat) (c' : Ring) (hg : RingGood c)
    (h : ringRegCompress c ks v = .ok (k, c')) :
    RingGood c' ∧ ringRegDecompress c' ks k = some v ∧ ringProt c' ks k ∧
    (∀ ks0 k0 v0, ringProt c ks0 k0 → ringRegDecompress c ks0 k0 = some v0 →
      ringProt c' ks0 k0 ∧ ringRegDecompress c' ks0 k0 = some v0) ∧
    (∀ k0 v0, ringUtxoDecompress c k0 = some v0 → ringUtxoDecompress c' k0 = some v0) ∧
    (∀ g p, ringInfo c' g p = ringInfo c g p) := by
  unfold ringRegCompress at h
  simp only [] at h
  cases hf : (getReg c ks).entries.find? (fun e => e.2 == v) with
  | some e =>
    rw [hf] at h
    injection h with h; injection h with h1 h2; subst h1; subst h2
    have hmem : e ∈ (getReg c ks).entries := List.mem_of_find?_eq_some hf
    have hval : e.2 = v := by simpa using List.find?_some hf
    have hlk : (getReg c ks).entries.lookup e.1 = some v := by
      apply lookup_of_mem_nodup (hg ks)
      rw [← hval]; exact hmem
    refine ⟨?_, ?_, ?_, ?_, ?_, ?_⟩
    · intro ks0; exact hg ks0
    · exact hlk
    · exact List.mem_cons_self ..
    · intro ks0 k0 v0 hp hd; exact ⟨List.mem_cons_of_mem _ hp, hd⟩
    · intro k0 v0 hh; exact hh
    · intro g p; rfl
  | none =>
    rw [hf] at h
    simp only [] at h
    cases hff : findFree c.size ((c.touched.filter (fun t => t.1 == ks)).map (·.2))
        (((c.touched.filter (fun t => t.1 == ks)).map (·.2)).length + 1) (getReg c ks).next with
    | none => rw [hff] at h; cases h
    | some k1 =>
      rw [hff] at h
      injection h with h; injection h with h1 h2; subst h1; subst h2
      have hnt := findFree_not_touched _ _ _ _ _ hff
      have hfresh : ∀ k0, (ks, k0) ∈ c.touched → k0 ≠ k1 := by
        intro k0 hm he
        subst he
        have : ((c.touched.filter (fun t => t.1 == ks)).map (·.2)).contains k0 = true := by
          simp only [List.contains_eq_mem, List.mem_map, List.mem_filter, decide_eq_true_eq]
          exact ⟨(ks, k0), ⟨hm, by simp⟩, rfl⟩
        rw [this] at hnt; cases hnt
      refine ⟨?_, ?_, ?_, ?_, ?_, ?_⟩
      · intro ks0
        by_cases hk : ks0 = ks
        · subst hk
          show ((getReg (setReg c ks0 _) ks0).entries.map (·.1)).Nodup
          rw [getReg_setReg_same]
          exact nodup_cons_filter _ _ _ (hg ks0)
        · show ((getReg (setReg c ks _) ks0).entries.map (·.1)).Nodup
          rw [getReg_setReg_ne _ _ _ _ hk]
          exact hg ks0
      · show (getReg (setReg c ks _) ks).entries.lookup k1 = some v
        rw [getReg_setReg_same]
        exact lookup_cons_self ..
      · exact List.mem_cons_self ..
      · intro ks0 k0 v0 hp hd
        refine ⟨List.mem_cons_of_mem _ hp, ?_⟩
        by_cases hk : ks0 = ks
        · subst hk
          show (getReg (setReg c ks0 _) ks0).entries.lookup k0 = some v0
          rw [getReg_setReg_same]
          have hne := hfresh k0 hp
          simp only []
          rw [lookup_cons_ne k1 k0 v _ hne, lookup_filter_ne _ k1 k0 hne]
          exact hd
        · show (getReg (setReg c ks _) ks0).entries.lookup k0 = some v0
          rw [getReg_setReg_ne _ _ _ _ hk]
          exact hd
      · intro k0 v0 hh; exact hh
      · intro g p; rfl

theorem ring_utxo_ok (c : Ring) (v : Val) (k : Nat) (c' : Ring) (hg : RingGood c)
    (h : ringUtxoCompress c v = .ok (k, c')) :
    RingGood c' ∧ ringUtxoDecompress c' k = some v ∧
    (∀ ks0 k0 v0, ringProt c ks0 k0 → ringRegDecompress c ks0 k0 = some v0 →
      ringProt c' ks0 k0 ∧ ringRegDecompress c' ks0 k0 = some v0) ∧
    (∀ k0 v0, ringUtxoDecompress c k0 = some v0 → ringUtxoDecompress c' k0 = some v0) ∧
    (∀ g p, ringInfo c' g p = ringInfo c g p) := by
  unfold ringUtxoCompress at h
  cases hi : indexOf v c.utxos with
  | some i =>
    rw [hi] at h
    injection h with h; injection h with h1 h2; subst h1; subst h2
    exact ⟨hg, indexOf_get v _ _ hi, fun _ _ _ hp hd => ⟨hp, hd⟩, fun _ _ hh => hh, fun _ _ => rfl⟩
  | none =>
    rw [hi] at h
    injection h with h; injection h with h1 h2; subst h1; subst h2
    refine ⟨fun ks0 => hg ks0, ?_, fun _ _ _ hp hd => ⟨hp, hd⟩, ?_, fun _ _ => rfl⟩
    · simp [ringUtxoDecompress]
    · intro k0 v0 hh
      simp only [ringUtxoDecompress] at hh ⊢
      have hlt : k0 < c.utxos.length := by
        rcases Nat.lt_or_ge k0 c.utxos.length with h | h
        · exact h
        · rw [List.getElem?_eq_none h] at hh; cases hh
      rw [List.getElem?_append_left hlt]
      exact hh

def ringLaws : CtxLaws ringOps where
  Good := RingGood
  Prot := ringProt
  reg_ok := ring_reg_ok
  utxo_ok := ring_utxo_ok

/-! ### sequences of transactions sharing one ring context -/

/-- within one transaction, two restored fields with the same context key (same coin / message, same field) carry
the same value — the context keeps one record per key ("a context holding the same referenced data") -/
def GroupsConsistent (T : FieldTable) (tx : List Leaf) : Prop :=
  ∀ l ∈ tx, ∀ l' ∈ tx, mode T l = .skipRestored → mode T l' = .skipRestored →
    l.group = l'.group → l.path = l'.path → l.val = l'.val

theorem storeTxInfo_regs (T : FieldTable) (r : Ring) (tx : List Leaf) :
    (storeTxInfo T r tx).regs = r.regs ∧ (storeTxInfo T r tx).start = r.start ∧
    (storeTxInfo T r tx).touched = r.touched := by
  unfold storeTxInfo
  induction tx generalizing r with
  | nil => exact ⟨rfl, rfl, rfl⟩
  | cons l rest ih =>
    simp only [List.foldl_cons]
    cases hm : mode T l <;> simp only [] <;> first | exact ih _ | (obtain ⟨a, b, c⟩ := ih _; exact ⟨a, b, c⟩)

theorem storeTxInfo_lookup (T : FieldTable) (r : Ring) (tx : List Leaf) (key : String × List Seg) (v : Val)
    (hall : ∀ l ∈ tx, mode T l = .skipRestored → (l.group, l.path) = key → l.val = v)
    (hex : (∃ l ∈ tx, mode T l = .skipRestored ∧ (l.group, l.path) = key) ∨ r.infos.lookup key = some v) :
    (storeTxInfo T r tx).infos.lookup key = some v := by
  unfold storeTxInfo
  induction tx generalizing r with
  | nil =>
    rcases hex with ⟨l, hl, _⟩ | h
    · cases hl
    · exact h
  | cons l rest ih =>
    simp only [List.foldl_cons]
    apply ih
    · intro l' hl'; exact hall l' (List.mem_cons_of_mem _ hl')
    · by_cases hm : mode T l = .skipRestored
      · by_cases hk : (l.group, l.path) = key
        · right
          have := hall l (List.mem_cons_self ..) hm hk
          simp only [hm]
          rw [hk, this]
          exact lookup_cons_self ..
        · rcases hex with ⟨l', hl', hm', hk'⟩ | h
          · rcases List.mem_cons.1 hl' with he | he
            · subst he; exact absurd hk' hk
            · left; exact ⟨l', he, hm', hk'⟩
          · right
            simp only [hm]
            have hne : key ≠ (l.group, l.path) := fun e => hk e.symm
            rw [lookup_cons_ne _ _ _ _ hne, lookup_filter_ne _ _ _ hne]
            exact h
      · rcases hex with ⟨l', hl', hm', hk'⟩ | h
        · rcases List.mem_cons.1 hl' with he | he
          · subst he; exact absurd hm' hm
          · left; exact ⟨l', he, hm', hk'⟩
        · right
          cases hmm : mode T l <;> simp only [] <;> first | exact h | exact absurd hmm hm

theorem storeTxInfo_agrees (T : FieldTable) (r : Ring) (tx : List Leaf) (hc : GroupsConsistent T tx) :
    InfoAgrees ringOps T (storeTxInfo T r tx) tx := by
  intro l hl hm
  show (storeTxInfo T r tx).infos.lookup (l.group, l.path) = some l.val
  apply storeTxInfo_lookup
  · intro l' hl' hm' hk
    injection hk with h1 h2
    exact hc l' hl' l hl hm' hm h1 h2
  · left; exact ⟨l, hl, hm, rfl⟩

theorem ringGood_of_regs {r r' : Ring} (h1 : r'.regs = r.regs) (h2 : r'.start = r.start) (hg : RingGood r) : RingGood r' := by
  intro ks
  have : getReg r' ks = getReg r ks := by simp [getReg, h1, h2]
  rw [this]; exact hg ks

/-- one transaction: the context stays good; if compression succeeded the decompression gives the expected fields -/
theorem runTx_ok (T : FieldTable) (r : Ring) (tx : List Leaf) (hr : RingGood r) (hc : GroupsConsistent T tx) :
    RingGood (runTx T r tx).1 ∧
    ∀ cls d, (runTx T r tx).2 = .ok (cls, d) → d = some (tx.map (restoreDefaults T)) := by
  unfold runTx
  have hg1 : RingGood (storeTxInfo T (endTx r) tx) := by
    obtain ⟨a, b, _⟩ := storeTxInfo_regs T (endTx r) tx
    exact ringGood_of_regs (r := r) (by rw [a]; rfl) (by rw [b]; rfl) hr
  have hinfo := storeTxInfo_agrees T (endTx r) tx hc
  simp only []
  cases h : compressAll ringOps T (storeTxInfo T (endTx r) tx) tx with
  | error e => exact ⟨hg1, fun _ _ hh => by cases hh⟩
  | ok p =>
    obtain ⟨cls, r2⟩ := p
    obtain ⟨hg2, _, hd⟩ := compressAll_ok ringOps ringLaws T _ r2 tx cls hg1 hinfo h
    refine ⟨hg2, ?_⟩
    intro cls' d hh
    injection hh with hh
    injection hh with e1 e2
    subst e1; subst e2
    exact hd r2 (Stable.refl ringOps ringLaws r2)

theorem runSeq_ok (T : FieldTable) (r : Ring) (txs : List (List Leaf)) (hr : RingGood r)
    (hcons : ∀ tx ∈ txs, GroupsConsistent T tx) :
    ∀ res ∈ (runSeq T r txs).2, ∀ d, res.2 = .ok d → d = some (res.1.map (restoreDefaults T)) := by
  induction txs generalizing r with
  | nil => intro res hres; cases hres
  | cons tx rest ih =>
    obtain ⟨hg, hd⟩ := runTx_ok T r tx hr (hcons tx (List.mem_cons_self ..))
    intro res hres d hok
    simp only [runSeq] at hres
    rcases List.mem_cons.1 hres with he | he
    · subst he
      simp only [] at hok
      cases hx : (runTx T r tx).2 with
      | error e => rw [hx] at hok; cases hok
      | ok p =>
        obtain ⟨cls, d'⟩ := p
        rw [hx] at hok
        simp only [Except.map] at hok
        injection hok with hok
        subst hok
        exact hd cls d' hx
    · exact ih (runTx T r tx).1 hg (fun t ht => hcons t (List.mem_cons_of_mem _ ht)) res he d hok

end FuelVerif.Compression
