/-
Helper lemmas for C19, part 2: `initial_free_balances` as a whole, and how `check` decomposes into its stages.
-/
import FuelVerif.Lemmas.ValidityBalances
import FuelVerif.Lemmas.Fee
namespace FuelVerif.Validity
open FuelVerif.Fee

/-- the fee limit is deducted from the base asset only -/
def feeOf (p : Params) (tx : Tx) (a : Nat) : Nat := if a = p.baseAsset then tx.policies.maxFee.getD 0 else 0

/-- `a` has an entry in the recorded balances: the base asset, and the asset of every coin input -/
def HasEntry (p : Params) (tx : Tx) (a : Nat) : Prop := a = p.baseAsset ∨ ∃ i ∈ tx.inputs, i.entry? p.baseAsset = some a

theorem bind_ok_iff {α β : Type} (x : R α) (k : α → R β) (b : β) :
    (x >>= k) = .ok b ↔ ∃ a, x = .ok a ∧ k a = .ok b := by
  cases x with
  | error e => simp [bind, Except.bind]
  | ok a => simp [bind, Except.bind]

theorem liftV_ok_iff {α : Type} (x : Except VErr α) (a : α) : liftV x = .ok a ↔ x = .ok a := by
  cases x <;> simp [liftV]

theorem mget_nil (a : Nat) : mget [] a = none := rfl

/-- what a successful `initial_free_balances` recorded -/
theorem initialFreeBalances_ok {p : Params} {tx : Tx} {b : Balances} (h : initialFreeBalances p tx = .ok b) :
    (∀ a, (mget b.nonRetryable a).getD 0 + coinOut tx.outputs a + feeOf p tx a = sumIn p.baseAsset tx.inputs a) ∧
    b.retryable = sumRetry tx.inputs ∧
    (∀ a, mget b.nonRetryable a ≠ none ↔ HasEntry p tx a) ∧
    (∀ a, sumIn p.baseAsset tx.inputs a ≤ u64Max) ∧ sumRetry tx.inputs ≤ u64Max ∧
    tx.policies.maxFee.isSome := by
  unfold initialFreeBalances at h
  cases hadd : addUpInputBalances p.baseAsset tx.inputs [] 0 with
  | none => simp [hadd] at h
  | some res =>
    obtain ⟨m0, r0⟩ := res
    simp only [hadd] at h
    cases hfee : tx.policies.maxFee with
    | none => simp [hfee] at h
    | some fee =>
      simp only [hfee, bind_ok_iff, liftV_ok_iff] at h
      obtain ⟨m1, hd, m2, hr, hb⟩ := h
      simp only [pure, Except.pure, Except.ok.injEq] at hb
      subst hb
      obtain ⟨a1, a2, a3⟩ := addUp_some _ _ _ _ _ _ hadd
      have abound := (addUp_isSome_iff p.baseAsset tx.inputs [] 0 (by intro a; simp [mget_nil]) (by simp [u64Max])).mp
        (by rw [hadd]; rfl)
      obtain ⟨d1, d2⟩ := deduct_ok_iff.mp hd
      obtain ⟨r1, r2, _⟩ := reduce_ok _ _ _ hr
      simp only [mget_nil, Option.getD_none, Nat.zero_add, ne_eq, not_true_eq_false, false_or] at a1 a2 a3 abound
      refine ⟨fun a => ?_, a2, fun a => ?_, abound.1, abound.2, rfl⟩
      · show (mget m2 a).getD 0 + coinOut tx.outputs a + feeOf p tx a = sumIn p.baseAsset tx.inputs a
        have e1 := r1 a
        have e2 := a1 a
        have e3 : (mget m1 a).getD 0 + feeOf p tx a = (mget m0 a).getD 0 := by
          rw [d2, mget_mset]
          unfold feeOf
          rw [hfee]
          by_cases e : p.baseAsset = a
          · subst e; simp only [if_true, Option.getD_some]; omega
          · have : ¬ a = p.baseAsset := fun x => e x.symm
            simp [e, this]
        omega
      · show mget m2 a ≠ none ↔ HasEntry p tx a
        rw [r2 a, d2, mget_mset]
        unfold HasEntry
        by_cases e : p.baseAsset = a
        · subst e; simp
        · have : ¬ a = p.baseAsset := fun x => e x.symm
          simp only [e, if_false, this, false_or]
          exact a3 a

/-- `initial_free_balances` succeeds exactly when nothing overflows, the fee limit is set, and for every asset the
coin outputs plus the fee limit are covered by the spendable inputs (and every coin output's asset has an entry) -/
theorem initialFreeBalances_isOk_iff (p : Params) (tx : Tx) :
    (∃ b, initialFreeBalances p tx = .ok b) ↔
      ((∀ a, sumIn p.baseAsset tx.inputs a ≤ u64Max) ∧ sumRetry tx.inputs ≤ u64Max ∧ tx.policies.maxFee.isSome ∧
       (∀ a, coinOut tx.outputs a + feeOf p tx a ≤ sumIn p.baseAsset tx.inputs a) ∧
       (∀ o ∈ tx.outputs, ∀ a, o.coinAsset? = some a → HasEntry p tx a)) := by
  constructor
  · rintro ⟨b, h⟩
    obtain ⟨h1, _, h3, h4, h5, h6⟩ := initialFreeBalances_ok h
    refine ⟨h4, h5, h6, fun a => ?_, ?_⟩
    · have := h1 a; omega
    · -- every coin output found an entry during the reduction
      intro o ho a ha
      unfold initialFreeBalances at h
      cases hadd : addUpInputBalances p.baseAsset tx.inputs [] 0 with
      | none => simp [hadd] at h
      | some res =>
        obtain ⟨m0, r0⟩ := res
        simp only [hadd] at h
        cases hfee : tx.policies.maxFee with
        | none => simp [hfee] at h
        | some fee =>
          simp only [hfee, bind_ok_iff, liftV_ok_iff] at h
          obtain ⟨m1, hd, m2, hr, hb⟩ := h
          simp only [pure, Except.pure, Except.ok.injEq] at hb
          subst hb
          obtain ⟨r1, r2, r3⟩ := reduce_ok _ _ _ hr
          exact (h3 a).mp ((r2 a).mpr (r3 o ho a ha))
  · rintro ⟨h1, h2, h3, h4, h5⟩
    have hsome := (addUp_isSome_iff p.baseAsset tx.inputs [] 0 (by intro a; simp [mget_nil]) (by simp [u64Max])).mpr
      ⟨by simpa [mget_nil] using h1, by simpa using h2⟩
    obtain ⟨res, hadd⟩ := Option.isSome_iff_exists.mp hsome
    obtain ⟨m0, r0⟩ := res
    obtain ⟨a1, a2, a3⟩ := addUp_some _ _ _ _ _ _ hadd
    simp only [mget_nil, Option.getD_none, Nat.zero_add, ne_eq, not_true_eq_false, false_or] at a1 a3
    obtain ⟨fee, hfee⟩ := Option.isSome_iff_exists.mp h3
    have hfb : fee ≤ (mget m0 p.baseAsset).getD 0 := by
      have := h4 p.baseAsset
      unfold feeOf at this
      rw [hfee] at this
      rw [a1]
      simp only [if_true, Option.getD_some] at this
      omega
    have hd : deductMaxFee m0 p.baseAsset fee = .ok (mset m0 p.baseAsset ((mget m0 p.baseAsset).getD 0 - fee)) :=
      deduct_ok_iff.mpr ⟨hfb, rfl⟩
    have hred : ∃ m2, reduceByCoinOutputs (mset m0 p.baseAsset ((mget m0 p.baseAsset).getD 0 - fee)) tx.outputs = .ok m2 := by
      rw [reduce_isOk_iff]
      refine ⟨fun a => ?_, fun o ho a ha => ?_⟩
      · rw [mget_mset]
        have := h4 a
        unfold feeOf at this
        rw [hfee] at this
        by_cases e : p.baseAsset = a
        · subst e; simp only [if_true, Option.getD_some] at this ⊢; rw [a1]; omega
        · have ne : ¬ a = p.baseAsset := fun x => e x.symm
          simp only [e, if_false, ne] at this ⊢; rw [a1]; omega
      · rw [mget_mset]
        by_cases e : p.baseAsset = a
        · simp [e]
        · simp only [e, if_false]
          rcases h5 o ho a ha with hb | hb
          · exact absurd hb.symm e
          · exact (a3 a).mpr hb
    obtain ⟨m2, hr⟩ := hred
    refine ⟨⟨m2, r0⟩, ?_⟩
    unfold initialFreeBalances
    simp only [hadd, hfee, bind_ok_iff, liftV_ok_iff]
    exact ⟨_, hd, _, hr, rfl⟩

/-- `check` succeeds exactly when its four stages succeed one after the other (and `min_gas`/`max_gas` are computed) -/
theorem check_ok_iff_stages (p : Params) (h : Nat) (tx : Tx) (c : Checked) :
    check p h tx = .ok c ↔
      (precompute tx = .ok () ∧ checkCommonPart p h tx = .ok () ∧ checkUniqueRules p tx = .ok () ∧
       initialFreeBalances p tx = .ok c.balances ∧
       minGas p.gas p.fee (feeView tx) = .ok c.minGas ∧ maxGas p.gas p.fee (feeView tx) = .ok c.maxGas) := by
  unfold check
  simp only [bind_ok_iff]
  constructor
  · rintro ⟨_, h1, _, h2, _, h3, b, h4, h5⟩
    refine ⟨h1, h2, h3, ?_⟩
    cases hmn : minGas p.gas p.fee (feeView tx) with
    | error e => simp [hmn, throw, throwThe, MonadExceptOf.throw] at h5
    | ok mn =>
      cases hmx : maxGas p.gas p.fee (feeView tx) with
      | error e => simp [hmn, hmx, throw, throwThe, MonadExceptOf.throw] at h5
      | ok mx =>
        simp only [hmn, hmx, pure, Except.pure, Except.ok.injEq] at h5
        subst h5
        exact ⟨h4, rfl, rfl⟩
  · rintro ⟨h1, h2, h3, h4, h5, h6⟩
    refine ⟨(), h1, (), h2, (), h3, c.balances, h4, ?_⟩
    simp [h5, h6, pure, Except.pure]

end FuelVerif.Validity
