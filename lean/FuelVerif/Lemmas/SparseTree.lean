/-
Helper lemmas for the structural sparse Merkle tree (`Model/SparseTree.lean`): the canonical-form
invariant `Canon`, its preservation by `insert`/`delete`, the map semantics of `get`, uniqueness of the
canonical tree of a finite map, and the verifier's fold.
-/
import FuelVerif.Model.SparseTree
namespace FuelVerif.Smt
open Tree
set_option linter.unusedSectionVars false

variable {K V Hh : Type} [DecidableEq K] (bit : K → Nat → Bool) (n : Nat)

/-- keys are determined by their `n` bits -/
def KeyExt : Prop := ∀ k k' : K, (∀ i, i < n → bit k i = bit k' i) → k = k'

/-- canonical form of the subtree at depth `d`: an internal node exists only above depth `n`, its left
(right) subtree holds only keys whose bit `d` is 0 (1), and it spans at least two leaves (a subtree
with fewer is a placeholder or a bare leaf, never expanded) -/
def Canon : Nat → Tree K V → Prop
  | _, .empty => True
  | _, .leaf _ _ => True
  | d, .node l r => d < n ∧ l.All (fun k => bit k d = false) ∧ r.All (fun k => bit k d = true)
      ∧ 2 ≤ l.size + r.size ∧ Canon (d + 1) l ∧ Canon (d + 1) r

/-- `k'` has the same first `d` bits as `k` -/
def AgreeBelow (d : Nat) (k k' : K) : Prop := ∀ i, i < d → bit k' i = bit k i

/-! ### `All` -/

theorem All.imp {p q : K → Prop} (h : ∀ k, p k → q k) : ∀ {t : Tree K V}, t.All p → t.All q
  | .empty, _ => trivial
  | .leaf _ _, hp => h _ hp
  | .node _ _, hp => ⟨All.imp h hp.1, All.imp h hp.2⟩

theorem All.and {p q : K → Prop} : ∀ {t : Tree K V}, t.All p → t.All q → t.All (fun k => p k ∧ q k)
  | .empty, _, _ => trivial
  | .leaf _ _, hp, hq => ⟨hp, hq⟩
  | .node _ _, hp, hq => ⟨All.and hp.1 hq.1, All.and hp.2 hq.2⟩

theorem All.of_forall {p : K → Prop} (h : ∀ k, p k) : ∀ (t : Tree K V), t.All p
  | .empty => trivial
  | .leaf k _ => h k
  | .node l r => ⟨All.of_forall h l, All.of_forall h r⟩

theorem All_join {p : K → Prop} {k k' : K} (v v' : V) (hk : p k) (hk' : p k') :
    ∀ (f d : Nat), (join bit f d k v k' v').All p
  | 0, _ => hk
  | f + 1, d => by
    unfold join
    split
    · exact ⟨hk, hk'⟩
    · exact ⟨hk', hk⟩
    · exact ⟨All_join v v' hk hk' f (d + 1), trivial⟩
    · exact ⟨trivial, All_join v v' hk hk' f (d + 1)⟩

theorem All_insert {p : K → Prop} {k : K} (v : V) (hk : p k) :
    ∀ (d : Nat) (t : Tree K V), t.All p → (insert bit n d k v t).All p
  | _, .empty, _ => hk
  | d, .leaf k' v', h => by
    unfold insert
    split
    · exact hk
    · exact All_join bit v v' hk h _ _
  | d, .node l r, h => by
    unfold insert
    split
    · exact ⟨h.1, All_insert v hk (d + 1) r h.2⟩
    · exact ⟨All_insert v hk (d + 1) l h.1, h.2⟩

theorem All_collapse {p : K → Prop} {l r : Tree K V} (hl : l.All p) (hr : r.All p) :
    (collapse l r).All p := by
  unfold collapse
  split
  · trivial
  · exact hl
  · exact hr
  · exact ⟨hl, hr⟩

theorem All_delete {p : K → Prop} (k : K) :
    ∀ (d : Nat) (t : Tree K V), t.All p → (delete bit d k t).All p
  | _, .empty, _ => trivial
  | _, .leaf k' v', h => by
    unfold delete
    split
    · trivial
    · exact h
  | d, .node l r, h => by
    unfold delete
    split
    · exact All_collapse h.1 (All_delete k (d + 1) r h.2)
    · exact All_collapse (All_delete k (d + 1) l h.1) h.2

/-- a key found by `get` is a leaf key of the tree -/
theorem get_of_All {p : K → Prop} {k : K} {v : V} :
    ∀ (d : Nat) (t : Tree K V), t.All p → get bit d k t = some v → p k
  | _, .empty, _, h => by simp [get] at h
  | _, .leaf k' v', hp, h => by
    unfold get at h
    split at h
    · next e => exact e ▸ hp
    · simp at h
  | d, .node l r, hp, h => by
    unfold get at h
    split at h
    · exact get_of_All (d + 1) r hp.2 h
    · exact get_of_All (d + 1) l hp.1 h

theorem get_none_of_All {p : K → Prop} {k : K} (hk : ¬ p k) (d : Nat) (t : Tree K V)
    (h : t.All p) : get bit d k t = none := by
  cases hg : get bit d k t with
  | none => rfl
  | some v => exact absurd (get_of_All bit d t h hg) hk

/-! ### canonical form: sizes -/

theorem canon_size_zero {d : Nat} : ∀ {t : Tree K V}, Canon bit n d t → t.size = 0 → t = .empty
  | .empty, _, _ => rfl
  | .leaf _ _, _, h => by simp [size] at h
  | .node l r, hc, h => by
    have := hc.2.2.2.1
    simp only [size] at h
    omega

theorem canon_size_one {d : Nat} :
    ∀ {t : Tree K V}, Canon bit n d t → t.size = 1 → ∃ k v, t = .leaf k v
  | .empty, _, h => by simp [size] at h
  | .leaf k v, _, _ => ⟨k, v, rfl⟩
  | .node l r, hc, h => by
    have := hc.2.2.2.1
    simp only [size] at h
    omega

theorem canon_node_size {d : Nat} {l r : Tree K V} (h : Canon bit n d (.node l r)) :
    2 ≤ (Tree.node l r).size := h.2.2.2.1

/-! ### `join` -/

theorem canon_join (hext : KeyExt bit n) {k k' : K} (v v' : V) (hne : k ≠ k') :
    ∀ (f d : Nat), d + f = n → AgreeBelow bit d k k' →
      Canon bit n d (join bit f d k v k' v') ∧ (join bit f d k v k' v').size = 2
  | 0, d, hd, ha => by
    exfalso
    apply hne
    apply hext
    intro i hi
    exact (ha i (by omega)).symm
  | f + 1, d, hd, ha => by
    have ih := canon_join hext v v' hne f (d + 1) (by omega)
    unfold join
    split
    · next hb hb' =>
      exact ⟨⟨by omega, hb, hb', by simp [size], trivial, trivial⟩, by simp [size]⟩
    · next hb hb' =>
      exact ⟨⟨by omega, hb', hb, by simp [size], trivial, trivial⟩, by simp [size]⟩
    · next hb hb' =>
      have ha' : AgreeBelow bit (d + 1) k k' := by
        intro i hi
        by_cases hid : i = d
        · subst hid; rw [hb, hb']
        · exact ha i (by omega)
      obtain ⟨hc, hs⟩ := ih ha'
      refine ⟨⟨by omega, All_join bit v v' hb hb' _ _, trivial, ?_, hc, trivial⟩, ?_⟩
      · simp only [size]; omega
      · simp only [size]; omega
    · next hb hb' =>
      have ha' : AgreeBelow bit (d + 1) k k' := by
        intro i hi
        by_cases hid : i = d
        · subst hid; rw [hb, hb']
        · exact ha i (by omega)
      obtain ⟨hc, hs⟩ := ih ha'
      refine ⟨⟨by omega, trivial, All_join bit v v' hb hb' _ _, ?_, trivial, hc⟩, ?_⟩
      · simp only [size]; omega
      · simp only [size]; omega

theorem agreeBelow_succ {d : Nat} {k k' : K} (ha : AgreeBelow bit d k k')
    (hb : bit k' d = bit k d) : AgreeBelow bit (d + 1) k k' := by
  intro i hi
  by_cases hid : i = d
  · subst hid; exact hb
  · exact ha i (by omega)

theorem get_join (hext : KeyExt bit n) {k k' : K} (v v' : V) (hne : k ≠ k') (q : K) :
    ∀ (f d : Nat), d + f = n → AgreeBelow bit d k k' →
      get bit d q (join bit f d k v k' v') =
        if k = q then some v else if k' = q then some v' else none
  | 0, d, hd, ha => by
    exfalso
    apply hne
    apply hext
    intro i hi
    exact (ha i (by omega)).symm
  | f + 1, d, hd, ha => by
    have ih := get_join hext v v' hne q f (d + 1) (by omega)
    unfold join
    split
    · next hb hb' =>
      unfold get
      by_cases hq : bit q d = true
      · have : k ≠ q := by intro e; subst e; rw [hb] at hq; cases hq
        simp [hq, get, this]
      · have hq' : bit q d = false := by simpa using hq
        have : k' ≠ q := by intro e; subst e; rw [hb'] at hq'; cases hq'
        simp [hq', get, this]
    · next hb hb' =>
      unfold get
      by_cases hq : bit q d = true
      · have : k' ≠ q := by intro e; subst e; rw [hb'] at hq; cases hq
        simp [hq, get, this]
      · have hq' : bit q d = false := by simpa using hq
        have : k ≠ q := by intro e; subst e; rw [hb] at hq'; cases hq'
        simp [hq', get, this]
    · next hb hb' =>
      unfold get
      by_cases hq : bit q d = true
      · have h1 : k ≠ q := by intro e; subst e; rw [hb] at hq; cases hq
        have h2 : k' ≠ q := by intro e; subst e; rw [hb'] at hq; cases hq
        simp [hq, get, h1, h2]
      · have hq' : bit q d = false := by simpa using hq
        simp only [hq', Bool.false_eq_true, ↓reduceIte]
        exact ih (agreeBelow_succ bit ha (by rw [hb, hb']))
    · next hb hb' =>
      unfold get
      by_cases hq : bit q d = true
      · simp only [hq, ↓reduceIte]
        exact ih (agreeBelow_succ bit ha (by rw [hb, hb']))
      · have hq' : bit q d = false := by simpa using hq
        have h1 : k ≠ q := by intro e; subst e; rw [hb] at hq'; cases hq'
        have h2 : k' ≠ q := by intro e; subst e; rw [hb'] at hq'; cases hq'
        simp [hq', get, h1, h2]

/-! ### `insert` -/

theorem canon_insert (hext : KeyExt bit n) {k : K} (v : V) :
    ∀ (d : Nat) (t : Tree K V), d ≤ n → Canon bit n d t → t.All (AgreeBelow bit d k) →
      Canon bit n d (insert bit n d k v t) ∧ t.size ≤ (insert bit n d k v t).size
        ∧ 1 ≤ (insert bit n d k v t).size
  | _, .empty, _, _, _ => by simp [insert, Canon, size]
  | d, .leaf k' v', hd, _, ha => by
    unfold insert
    split
    · simp [Canon, size]
    · next hne =>
      obtain ⟨hc, hs⟩ := canon_join bit n hext v v' (Ne.symm hne) (n - d) d (by omega) ha
      exact ⟨hc, by simp only [size]; omega, by omega⟩
  | d, .node l r, hd, hc, ha => by
    obtain ⟨hdn, hl, hr, hsz, hcl, hcr⟩ := hc
    unfold insert
    split
    · next hb =>
      have har : r.All (AgreeBelow bit (d + 1) k) :=
        All.imp (fun k' h => agreeBelow_succ bit h.1 (by rw [h.2, hb])) (All.and ha.2 hr)
      obtain ⟨h1, h2, h3⟩ := canon_insert hext v (d + 1) r (by omega) hcr har
      exact ⟨⟨hdn, hl, All_insert bit n v hb _ _ hr, by omega, hcl, h1⟩,
        by simp only [size]; omega, by simp only [size]; omega⟩
    · next hb =>
      have hb' : bit k d = false := by simpa using hb
      have hal : l.All (AgreeBelow bit (d + 1) k) :=
        All.imp (fun k' h => agreeBelow_succ bit h.1 (by rw [h.2, hb'])) (All.and ha.1 hl)
      obtain ⟨h1, h2, h3⟩ := canon_insert hext v (d + 1) l (by omega) hcl hal
      exact ⟨⟨hdn, All_insert bit n v hb' _ _ hl, hr, by omega, h1, hcr⟩,
        by simp only [size]; omega, by simp only [size]; omega⟩

theorem get_insert (hext : KeyExt bit n) {k : K} (v : V) (q : K) :
    ∀ (d : Nat) (t : Tree K V), d ≤ n → Canon bit n d t → t.All (AgreeBelow bit d k) →
      get bit d q (insert bit n d k v t) = if k = q then some v else get bit d q t
  | _, .empty, _, _, _ => by simp [insert, get]
  | d, .leaf k' v', hd, _, ha => by
    unfold insert
    split
    · next e => subst e; simp only [get]; split <;> simp
    · next hne =>
      rw [get_join bit n hext v v' (Ne.symm hne) q (n - d) d (by omega) ha]
      simp [get]
  | d, .node l r, hd, hc, ha => by
    obtain ⟨hdn, hl, hr, hsz, hcl, hcr⟩ := hc
    unfold insert
    split
    · next hb =>
      have har : r.All (AgreeBelow bit (d + 1) k) :=
        All.imp (fun k' h => agreeBelow_succ bit h.1 (by rw [h.2, hb])) (All.and ha.2 hr)
      unfold get
      by_cases hq : bit q d = true
      · simp only [hq, ↓reduceIte]
        exact get_insert hext v q (d + 1) r (by omega) hcr har
      · have : k ≠ q := by intro e; subst e; exact hq hb
        simp [hq, this]
    · next hb =>
      have hb' : bit k d = false := by simpa using hb
      have hal : l.All (AgreeBelow bit (d + 1) k) :=
        All.imp (fun k' h => agreeBelow_succ bit h.1 (by rw [h.2, hb'])) (All.and ha.1 hl)
      unfold get
      by_cases hq : bit q d = true
      · have : k ≠ q := by intro e; subst e; exact hb hq
        simp [hq, this]
      · simp only [hq]
        exact get_insert hext v q (d + 1) l (by omega) hcl hal

/-! ### `delete` -/

theorem canon_collapse {d : Nat} {l r : Tree K V} (hd : d < n)
    (hl : l.All (fun k => bit k d = false)) (hr : r.All (fun k => bit k d = true))
    (hcl : Canon bit n (d + 1) l) (hcr : Canon bit n (d + 1) r) :
    Canon bit n d (collapse l r) := by
  unfold collapse
  split
  · trivial
  · trivial
  · trivial
  · next h1 h2 h3 =>
    refine ⟨hd, hl, hr, ?_, hcl, hcr⟩
    cases l with
    | empty =>
      cases r with
      | empty => exact absurd rfl (h1 rfl)
      | leaf k v => exact absurd rfl (h3 k v rfl)
      | node a b => have := canon_node_size bit n hcr; simp only [size] at *; omega
    | leaf k v =>
      cases r with
      | empty => exact absurd rfl (h2 k v rfl)
      | leaf k' v' => simp [size]
      | node a b => have := canon_node_size bit n hcr; simp only [size] at *; omega
    | node a b => have := canon_node_size bit n hcl; simp only [size] at *; omega

theorem canon_delete (k : K) :
    ∀ (d : Nat) (t : Tree K V), Canon bit n d t → Canon bit n d (delete bit d k t)
  | _, .empty, _ => trivial
  | _, .leaf k' v', _ => by
    unfold delete
    split <;> trivial
  | d, .node l r, hc => by
    obtain ⟨hdn, hl, hr, hsz, hcl, hcr⟩ := hc
    unfold delete
    split
    · exact canon_collapse bit n hdn hl (All_delete bit k _ _ hr) hcl (canon_delete k (d + 1) r hcr)
    · exact canon_collapse bit n hdn (All_delete bit k _ _ hl) hr (canon_delete k (d + 1) l hcl) hcr

theorem get_collapse {d : Nat} {l r : Tree K V} (q : K)
    (hl : l.All (fun k => bit k d = false)) (hr : r.All (fun k => bit k d = true)) :
    get bit d q (collapse l r) = get bit d q (.node l r) := by
  unfold collapse
  split
  · simp [get]
  · next k v =>
    simp only [get]
    by_cases hq : bit q d = true
    · have : k ≠ q := by intro e; subst e; rw [hl] at hq; cases hq
      simp [hq, this]
    · simp [hq]
  · next k v =>
    simp only [get]
    by_cases hq : bit q d = true
    · simp [hq]
    · have : k ≠ q := by intro e; subst e; exact hq hr
      simp [hq, this]
  · rfl

theorem get_delete (k q : K) :
    ∀ (d : Nat) (t : Tree K V), Canon bit n d t →
      get bit d q (delete bit d k t) = if k = q then none else get bit d q t
  | _, .empty, _ => by simp [delete, get]
  | _, .leaf k' v', _ => by
    unfold delete
    split
    · next e => subst e; simp [get]
    · next hne =>
      simp only [get]
      by_cases e : k = q
      · subst e; simp [hne]
      · simp [e]
  | d, .node l r, hc => by
    obtain ⟨hdn, hl, hr, hsz, hcl, hcr⟩ := hc
    unfold delete
    split
    · next hb =>
      rw [get_collapse bit q hl (All_delete bit k _ _ hr)]
      simp only [get]
      by_cases hq : bit q d = true
      · simp only [hq, ↓reduceIte]
        exact get_delete k q (d + 1) r hcr
      · have : k ≠ q := by intro e; subst e; exact hq hb
        simp [hq, this]
    · next hb =>
      rw [get_collapse bit q (All_delete bit k _ _ hl) hr]
      simp only [get]
      by_cases hq : bit q d = true
      · have : k ≠ q := by intro e; subst e; exact hb hq
        simp [hq, this]
      · simp only [hq]
        exact get_delete k q (d + 1) l hcl

/-! ### the canonical tree of a finite map is unique -/

theorem canon_all_none {d : Nat} :
    ∀ {t : Tree K V}, Canon bit n d t → (∀ q, get bit d q t = none) → t = .empty
  | .empty, _, _ => rfl
  | .leaf k v, _, h => by have := h k; simp [get] at this
  | .node l r, hc, h => by
    obtain ⟨hdn, hl, hr, hsz, hcl, hcr⟩ := hc
    have e1 : l = .empty := canon_all_none hcl (fun q => by
      by_cases hq : bit q d = true
      · exact get_none_of_All bit (by simp [hq]) _ _ hl
      · have := h q; simpa [get, hq] using this)
    have e2 : r = .empty := canon_all_none hcr (fun q => by
      by_cases hq : bit q d = true
      · have := h q; simpa [get, hq] using this
      · exact get_none_of_All bit hq _ _ hr)
    subst e1 e2
    simp [size] at hsz

theorem canon_single {d : Nat} (k : K) (v : V) :
    ∀ {t : Tree K V}, Canon bit n d t →
      (∀ q, get bit d q t = if k = q then some v else none) → t = .leaf k v
  | .empty, _, h => by have := h k; simp [get] at this
  | .leaf k' v', _, h => by
    have h1 := h k'
    simp only [get, ↓reduceIte] at h1
    by_cases e : k = k'
    · subst e; simp at h1; subst h1; rfl
    · simp [e] at h1
  | .node l r, hc, h => by
    obtain ⟨hdn, hl, hr, hsz, hcl, hcr⟩ := hc
    exfalso
    by_cases hk : bit k d = true
    · have e1 : l = .empty := canon_all_none bit n hcl (fun q => by
        by_cases hq : bit q d = true
        · exact get_none_of_All bit (by simp [hq]) _ _ hl
        · have := h q
          have hne : k ≠ q := by intro e; subst e; exact hq hk
          simpa [get, hq, hne] using this)
      have e2 : r = .leaf k v := canon_single k v hcr (fun q => by
        by_cases hq : bit q d = true
        · have := h q; simpa [get, hq] using this
        · have hne : k ≠ q := by intro e; subst e; exact hq hk
          rw [get_none_of_All bit hq _ _ hr]; simp [hne])
      subst e1 e2
      simp [size] at hsz
    · have e2 : r = .empty := canon_all_none bit n hcr (fun q => by
        by_cases hq : bit q d = true
        · have := h q
          have hne : k ≠ q := by intro e; subst e; exact hk hq
          simpa [get, hq, hne] using this
        · exact get_none_of_All bit hq _ _ hr)
      have e1 : l = .leaf k v := canon_single k v hcl (fun q => by
        by_cases hq : bit q d = true
        · have hne : k ≠ q := by intro e; subst e; exact hk hq
          rw [get_none_of_All bit (by simp [hq]) _ _ hl]; simp [hne]
        · have := h q; simpa [get, hq] using this)
      subst e1 e2
      simp [size] at hsz

/-! ### association lists -/

/-- the keys of the association list are pairwise distinct -/
def KeysNodup (S : List (K × V)) : Prop := (S.map Prod.fst).Nodup

theorem lookup_filter (p : K → Bool) (q : K) :
    ∀ (S : List (K × V)), lookup q (S.filter (fun kv => p kv.1)) = if p q then lookup q S else none
  | [] => by simp [lookup]
  | (k, v) :: S => by
    have ih := lookup_filter p q S
    by_cases hp : p k = true
    · rw [List.filter_cons_of_pos (by simpa using hp)]
      simp only [lookup]
      by_cases e : k = q
      · subst e; simp [hp]
      · simp only [e, ↓reduceIte]; exact ih
    · rw [List.filter_cons_of_neg (by simpa using hp)]
      simp only [lookup]
      by_cases e : k = q
      · subst e; simp only [↓reduceIte]; rw [ih]; simp [hp]
      · simp only [e, ↓reduceIte]; exact ih

theorem keysNodup_filter {S : List (K × V)} (p : K × V → Bool) (h : KeysNodup S) :
    KeysNodup (S.filter p) :=
  List.Nodup.sublist (List.Sublist.map _ List.filter_sublist) h

theorem lookup_of_mem {S : List (K × V)} (h : KeysNodup S) {k : K} {v : V} (hm : (k, v) ∈ S) :
    lookup k S = some v := by
  induction S with
  | nil => cases hm
  | cons a S ih =>
    obtain ⟨k', v'⟩ := a
    simp only [KeysNodup, List.map_cons, List.nodup_cons] at h
    simp only [lookup]
    cases hm with
    | head => simp
    | tail _ hm' =>
      have : k' ≠ k := by
        intro e; subst e
        exact h.1 (List.mem_map.mpr ⟨(k', v), hm', rfl⟩)
      simp only [this, ↓reduceIte]
      exact ih h.2 hm'

/-- **the spec root of any duplicate-free list that agrees with a canonical tree is that tree's hash** -/
theorem spec_of_agree (P : Hashes K V Hh) :
    ∀ (t : Tree K V) (d : Nat) (S : List (K × V)), d ≤ n → Canon bit n d t → KeysNodup S →
      (∀ q, lookup q S = get bit d q t) → specRoot bit P (n - d) d S = some (t.hash P)
  | .empty, d, S, _, _, _, hag => by
    cases S with
    | nil => simp [specRoot, Tree.hash]
    | cons a S => have := hag a.1; simp [lookup, get] at this
  | .leaf k v, d, S, _, _, hnd, hag => by
    cases S with
    | nil => have := hag k; simp [lookup, get] at this
    | cons a S =>
      obtain ⟨k1, v1⟩ := a
      have h1 := hag k1
      simp only [lookup, ↓reduceIte, get] at h1
      have e1 : k = k1 := by
        by_cases e : k = k1
        · exact e
        · simp [e] at h1
      subst e1
      simp only [↓reduceIte, Option.some.injEq] at h1
      subst h1
      cases S with
      | nil => simp [specRoot, Tree.hash]
      | cons b S =>
        exfalso
        obtain ⟨k2, v2⟩ := b
        have hne : k ≠ k2 := by
          intro e; subst e
          simp [KeysNodup] at hnd
        have h2 := hag k2
        simp [lookup, get, hne] at h2
  | .node l r, d, S, hd, hc, hnd, hag => by
    obtain ⟨hdn, hl, hr, hsz, hcl, hcr⟩ := hc
    have hagl : ∀ q, lookup q (S.filter (fun kv => !bit kv.1 d)) = get bit (d + 1) q l := by
      intro q
      rw [lookup_filter (fun k => !bit k d) q S]
      by_cases hq : bit q d = true
      · simp only [hq, Bool.not_true, Bool.false_eq_true, ↓reduceIte]
        exact (get_none_of_All bit (by simp [hq]) _ _ hl).symm
      · have := hag q
        simp only [get, hq, Bool.false_eq_true, ↓reduceIte] at this
        simp [hq, this]
    have hagr : ∀ q, lookup q (S.filter (fun kv => bit kv.1 d)) = get bit (d + 1) q r := by
      intro q
      rw [lookup_filter (fun k => bit k d) q S]
      by_cases hq : bit q d = true
      · have := hag q
        simp only [get, hq, ↓reduceIte] at this
        simp [hq, this]
      · simp only [hq, Bool.false_eq_true, ↓reduceIte]
        exact (get_none_of_All bit hq _ _ hr).symm
    have ihl := spec_of_agree P l (d + 1) _ (by omega) hcl (keysNodup_filter _ hnd) hagl
    have ihr := spec_of_agree P r (d + 1) _ (by omega) hcr (keysNodup_filter _ hnd) hagr
    have hcn : Canon bit n d (.node l r) := ⟨hdn, hl, hr, hsz, hcl, hcr⟩
    cases S with
    | nil =>
      exfalso
      have := canon_all_none bit n hcn (fun q => by rw [← hag q]; rfl)
      cases this
    | cons a S =>
      cases S with
      | nil =>
        exfalso
        obtain ⟨k1, v1⟩ := a
        have := canon_single bit n k1 v1 hcn (fun q => by
          rw [← hag q]; simp only [lookup])
        cases this
      | cons b S =>
        have hf : n - d = (n - (d + 1)) + 1 := by omega
        rw [hf]
        simp only [specRoot]
        rw [ihl, ihr]
        rfl

/-! ### histories -/

theorem lookup_alErase (k q : K) :
    ∀ (S : List (K × V)), lookup q (alErase k S) = if k = q then none else lookup q S
  | [] => by simp [alErase, lookup]
  | (k', v) :: S => by
    have ih := lookup_alErase k q S
    unfold alErase
    by_cases e : k' = k
    · subst e
      simp only [↓reduceIte, lookup]
      rw [ih]
      by_cases e' : k' = q
      · simp [e']
      · simp [e']
    · simp only [e, ↓reduceIte, lookup]
      by_cases e' : k' = q
      · subst e'
        have : k ≠ k' := fun h => e h.symm
        simp [this]
      · simp only [e', ↓reduceIte]; exact ih

theorem alErase_keys_subset (k : K) :
    ∀ (S : List (K × V)) (x : K), x ∈ (alErase k S).map Prod.fst → x ∈ S.map Prod.fst ∧ x ≠ k
  | [], x, h => by simp [alErase] at h
  | (k', v) :: S, x, h => by
    unfold alErase at h
    by_cases e : k' = k
    · simp only [e, ↓reduceIte] at h
      have := alErase_keys_subset k S x h
      exact ⟨by simp [this.1], this.2⟩
    · simp only [e, ↓reduceIte, List.map_cons, List.mem_cons] at h
      cases h with
      | inl h => subst h; exact ⟨by simp, e⟩
      | inr h =>
        have := alErase_keys_subset k S x h
        exact ⟨by simp [this.1], this.2⟩

theorem keysNodup_alErase (k : K) :
    ∀ (S : List (K × V)), KeysNodup S → KeysNodup (alErase k S)
  | [], _ => by simp [alErase, KeysNodup]
  | (k', v) :: S, h => by
    simp only [KeysNodup, List.map_cons, List.nodup_cons] at h
    unfold alErase
    by_cases e : k' = k
    · simp only [e, ↓reduceIte]; exact keysNodup_alErase k S h.2
    · simp only [e, ↓reduceIte, KeysNodup, List.map_cons, List.nodup_cons]
      exact ⟨fun hm => h.1 (alErase_keys_subset k S k' hm).1, keysNodup_alErase k S h.2⟩

theorem keysNodup_alInsert (k : K) (v : V) (S : List (K × V)) (h : KeysNodup S) :
    KeysNodup (alInsert k v S) := by
  simp only [alInsert, KeysNodup, List.map_cons, List.nodup_cons]
  exact ⟨fun hm => (alErase_keys_subset k S k hm).2 rfl, keysNodup_alErase k S h⟩

end FuelVerif.Smt
