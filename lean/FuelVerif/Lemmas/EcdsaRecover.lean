/-
Characterisation of the library-level recovery / verification routines of `Model/Ecdsa.lean` over a
lawful curve: what `scSigRecover` (libsecp256k1) and `rcRecover` (RustCrypto) compute, that the
re-verification inside `rcRecover` can only fail through the low-s rule, and that `(r, s, v)` and
`(r, n − s, ¬v)` recover the same key.
-/
import FuelVerif.Lemmas.EcdsaLaws
namespace FuelVerif.Ecdsa
open FuelVerif

theorem negN_lt {n s : Nat} (hn : 0 < n) : negN n s < n := Nat.mod_lt _ hn

theorem negN_ne_zero {n s : Nat} (hs0 : s ≠ 0) (hs : s < n) : negN n s ≠ 0 := by
  unfold negN
  rw [Nat.mod_eq_of_lt hs, Nat.mod_eq_of_lt (by omega)]
  omega

/-- `n − s` is low when `s` is high (n odd) -/
theorem negN_not_high {n s : Nat} (hodd : n % 2 = 1) (hs : s < n) (hh : isHigh n s = true) :
    isHigh n (negN n s) = false := by
  unfold isHigh at *
  unfold negN
  simp only [decide_eq_true_eq, decide_eq_false_iff_not] at *
  rw [Nat.mod_eq_of_lt hs, Nat.mod_eq_of_lt (by omega)]
  omega

/-- the x-coordinate comparison of libsecp256k1 (`x = r`, or `x = r + n` when that is below `p`) is the
comparison `r = x mod n` of RustCrypto, for `x < p < 2n` -/
theorem xcmp_eq {n p r x : Nat} (hp : p < 2 * n) (hx : x < p) (hr : r < n) :
    (if (x == r) = true then true else if r + n ≥ p then false else x == r + n) = (r == x % n) := by
  by_cases hxn : x < n
  · rw [Nat.mod_eq_of_lt hxn]
    by_cases h : x = r
    · subst h; simp
    · have h1 : (x == r) = false := by simpa using h
      have h2 : (r == x) = false := by simpa using (fun h' => h h'.symm)
      rw [h1, h2]
      simp only [Bool.false_eq_true, if_false]
      split
      · rfl
      · simp; omega
  · have hmod : x % n = x - n := by
      rw [Nat.mod_eq_sub_mod (by omega), Nat.mod_eq_of_lt (by omega)]
    rw [hmod]
    have h1 : (x == r) = false := by simp; omega
    rw [h1]
    simp only [Bool.false_eq_true, if_false]
    by_cases h : x = r + n
    · subst h
      rw [if_neg (by omega)]
      simp
    · split
      · simp; omega
      · simp [h]; omega

variable {E : Curve} [AddCommGroup E.Pt] [Module (ZMod E.n) E.Pt]

namespace CurveLaws
variable (L : CurveLaws E)
include L

/-- libsecp256k1 recovery in closed form -/
theorem scSigRecover_eq (z r s : Nat) (odd : Bool) (hr0 : r ≠ 0) (hr : r < E.n) (hs0 : s ≠ 0) :
    scSigRecover E z r s odd =
      match E.liftX r odd with
      | none => none
      | some R => if E.isZero (recPt E z r s R) then none else some (recPt E z r s R) := by
  unfold scSigRecover
  rw [if_neg (by simp [hr0, hs0])]
  cases h : E.liftX r odd with
  | none => rfl
  | some R =>
    simp only [L.lincomb_recover z r s R hr0 hr]

/-- the verification equation holds for every key produced by recovery -/
theorem rcVerifyPrehashed_recovered (z r s : Nat) (odd : Bool) (R : E.Pt) (hR : E.liftX r odd = some R)
    (hr0 : r ≠ 0) (hr : r < E.n) (hs0 : s ≠ 0) (hs : s < E.n) :
    rcVerifyPrehashed E (recPt E z r s R) z r s = true := by
  have := L.fact_prime
  have hsz : (s : ZMod E.n) ≠ 0 := cast_ne_zero_of_lt hs0 hs
  obtain ⟨hR0, hx, _⟩ := L.lift_some _ _ _ hR
  unfold rcVerifyPrehashed
  simp only [L.lincomb_eq, cast_mulmod, invN_cast s hsz, L.verify_recovered z r s R hr0 hr hs0 hs]
  unfold affX
  rw [L.isZero_false.mpr hR0]
  simp [hx, Nat.mod_eq_of_lt hr]

/-- RustCrypto recovery = libsecp256k1 recovery, except for the verifier's low-s rule -/
theorem rcRecover_eq (lowS : Bool) (z r s : Nat) (odd : Bool)
    (hr0 : r ≠ 0) (hr : r < E.n) (hs0 : s ≠ 0) (hs : s < E.n) :
    rcRecover E lowS z r s odd =
      if lowS && isHigh E.n s then none else scSigRecover E z r s odd := by
  rw [L.scSigRecover_eq z r s odd hr0 hr hs0]
  unfold rcRecover
  cases h : E.liftX r odd with
  | none => simp
  | some R =>
    simp only [L.lincomb_recover z r s R hr0 hr]
    by_cases h0 : E.isZero (recPt E z r s R) = true
    · rw [if_pos h0, if_pos h0]; simp
    · rw [if_neg h0, if_neg h0]
      unfold rcVerify
      by_cases hl : (lowS && isHigh E.n s) = true
      · rw [if_pos hl, if_pos hl]; simp
      · rw [if_neg hl, if_neg hl, L.rcVerifyPrehashed_recovered z r s odd R h hr0 hr hs0 hs]; simp

/-- **normalisation does not change the recovered key**: `(r, n − s, ¬v)` recovers what `(r, s, v)` recovers -/
theorem scSigRecover_neg (z r s : Nat) (odd : Bool) (hr0 : r ≠ 0) (hr : r < E.n) (hs0 : s ≠ 0) (hs : s < E.n) :
    scSigRecover E z r (negN E.n s) (!odd) = scSigRecover E z r s odd := by
  have := L.fact_prime
  have : NeZero E.n := ⟨L.n_pos.ne'⟩
  rw [L.scSigRecover_eq z r s odd hr0 hr hs0,
      L.scSigRecover_eq z r (negN E.n s) (!odd) hr0 hr (negN_ne_zero hs0 hs)]
  cases h : E.liftX r odd with
  | none => rw [L.lift_none_neg h]
  | some R =>
    rw [L.lift_neg h]
    have : recPt E z r (negN E.n s) (-R) = recPt E z r s R := by
      unfold recPt
      rw [negN_cast, neg_smul, smul_neg, neg_neg]
    simp only [this]

/-- the two libraries' verifiers agree on every key, digest and in-range non-zero scalars -/
theorem rcVerify_eq_scVerify (Q : E.Pt) (z r s : Nat) (hr0 : r ≠ 0) (hr : r < E.n) (hs0 : s ≠ 0) :
    rcVerify E true Q z r s = scVerify E Q z r s := by
  unfold rcVerify scVerify
  by_cases hh : isHigh E.n s = true
  · simp [hh]
  · have hh' : isHigh E.n s = false := by simpa using hh
    rw [hh']
    simp only [Bool.and_false, Bool.false_eq_true, if_false, Bool.not_false, Bool.true_and]
    unfold rcVerifyPrehashed scSigVerify
    rw [if_neg (by simp [hr0, hs0])]
    simp only [Nat.mul_comm (invN E.n s)]
    generalize E.lincomb (z * invN E.n s % E.n) (r * invN E.n s % E.n) Q = P
    unfold affX
    by_cases h0 : E.isZero P = true
    · rw [if_pos h0, if_pos h0]
      simp [hr0]
    · rw [if_neg h0, if_neg h0]
      have hP : P ≠ 0 := fun h => h0 ((L.isZero_iff P).mpr h)
      exact (xcmp_eq L.p_lt (L.toXY_lt P hP).1 hr).symm

end CurveLaws
end FuelVerif.Ecdsa
