/-
Lemmas for C10/C11: the tree's storage and the scratch storage of `root_node` hold, for every aligned
block that `PositionPathIter` can name, the tree hash of the block's leaves.
-/
import FuelVerif.Lemmas.BinaryMerklePath
namespace FuelVerif.BMT
open FuelVerif

/-! ### arithmetic of aligned numbers -/

theorem aligned_between {m x y : Nat} (hm : 0 < m) (hx : m ∣ x) (hy : m ∣ y) (h1 : x ≤ y) (h2 : y < x + m) : y = x := by
  obtain ⟨p, rfl⟩ := hx
  obtain ⟨q, rfl⟩ := hy
  have a1 : p ≤ q := Nat.le_of_mul_le_mul_left h1 hm
  have a2 : q < p + 1 := by
    have : m * q < m * (p + 1) := by rw [Nat.mul_add, Nat.mul_one]; exact h2
    exact Nat.lt_of_mul_lt_mul_left this
  have : q = p := by omega
  rw [this]

theorem aligned_step {m x y : Nat} (hx : m ∣ x) (hy : m ∣ y) (h : x < y) : x + m ≤ y := by
  obtain ⟨p, rfl⟩ := hx
  obtain ⟨q, rfl⟩ := hy
  rcases Nat.eq_zero_or_pos m with rfl | hm
  · simp at h
  · have a1 : p < q := Nat.lt_of_mul_lt_mul_left h
    have : m * (p + 1) ≤ m * q := Nat.mul_le_mul_left m a1
    rw [Nat.mul_add, Nat.mul_one] at this
    exact this

theorem pow_lt_imp {a b : Nat} (h : 2 ^ a < 2 ^ b) : a < b := (Nat.pow_lt_pow_iff_right (by decide)).mp h

theorem bpos_inj {a h a' h' : Nat} (hd : 2 ^ h ∣ a) (hd' : 2 ^ h' ∣ a') (hh : h < 64) (hh' : h' < 64)
    (he : bpos a h = bpos a' h') : a = a' ∧ h = h' := by
  have e1 := bpos_height hd hh
  have e2 := bpos_height hd' hh'
  rw [he] at e1
  have hheq : h = h' := by omega
  subst hheq
  have hp := Nat.pow_pos (n := h) (show 0 < 2 by decide)
  unfold bpos at he
  exact ⟨by omega, rfl⟩

/-! ### storage: every complete aligned block below the leaf count is recorded -/

def StoreInv (H : HashFn) (D : List Bytes) (storage : Storage) : Prop :=
  ∀ a h, 2 ^ h ∣ a → a + 2 ^ h ≤ D.length → storage.get (bpos a h) = some ⟨bpos a h, mth H (seg D a h)⟩

theorem get_insert_self (s : Storage) (x : Node) : (s.insert x).get x.pos = some x := by
  simp [Storage.insert, Storage.get]

theorem get_insert_ne (s : Storage) (x : Node) {key : Nat} (h : x.pos ≠ key) : (s.insert x).get key = s.get key := by
  simp [Storage.insert, Storage.get, h]

theorem get_foldl_insert_of_not_mem : ∀ (l : List Node) (s : Storage) (key : Nat), (∀ y ∈ l, y.pos ≠ key) →
    (l.foldl Storage.insert s).get key = s.get key
  | [], _, _, _ => rfl
  | y :: l, s, key, h => by
    rw [List.foldl_cons, get_foldl_insert_of_not_mem l _ key (fun z hz => h z (List.mem_cons_of_mem _ hz)),
      get_insert_ne _ _ (h y (List.mem_cons_self))]

theorem get_foldl_insert_of_mem : ∀ (l : List Node) (s : Storage) (x : Node), x ∈ l →
    (∀ y ∈ l, y.pos = x.pos → y = x) → (l.foldl Storage.insert s).get x.pos = some x
  | y :: l, s, x, hx, hu => by
    rw [List.foldl_cons]
    by_cases hm : x ∈ l
    · exact get_foldl_insert_of_mem l _ x hm (fun z hz => hu z (List.mem_cons_of_mem _ hz))
    · have hxy : x = y := by
        rcases List.mem_cons.mp hx with h | h
        · exact h
        · exact absurd h hm
      subst hxy
      rw [get_foldl_insert_of_not_mem l _ _ (fun z hz he => hm (by rw [← hu z (List.mem_cons_of_mem _ hz) he]; exact hz)),
        get_insert_self]

/-- the nodes a merge loop hands to the callback are exactly the aligned blocks higher than `h` that
end at the new leaf count -/
def CreatedOk (H : HashFn) (D : List Bytes) (h : Nat) (created : List Node) : Prop :=
  (∀ x ∈ created, ∃ a' h', h < h' ∧ 2 ^ h' ∣ a' ∧ a' + 2 ^ h' = D.length ∧ x = ⟨bpos a' h', mth H (seg D a' h')⟩) ∧
  (∀ a' h', h < h' → 2 ^ h' ∣ a' → a' + 2 ^ h' = D.length → (⟨bpos a' h', mth H (seg D a' h')⟩ : Node) ∈ created)

theorem seg_suffix {L S : List Bytes} {h : Nat} (hS : S.length = 2 ^ h) : seg (L ++ S) L.length h = S := by
  unfold seg
  rw [List.drop_left', List.take_of_length_le (by omega)]
  rfl

theorem mergeLoop_full (H : HashFn) :
    ∀ (rest : List Node) (h : Nat) (L S : List Bytes),
      Stk (mth H) 1 h L rest → S.length = 2 ^ h → L.length + S.length < 2 ^ 63 →
      ∃ st created, mergeLoop H ⟨peakPos 1 L.length h, mth H S⟩ rest = .ok (st, created) ∧
        Stk (mth H) 1 h (L ++ S) st ∧ CreatedOk H (L ++ S) h created := by
  intro rest
  induction rest with
  | nil =>
    intro h L S hstk hS _
    cases hstk
    refine ⟨_, _, rfl, .cons (Nat.le_refl _) hS (.nil _), ?_, ?_⟩
    · intro x hx; simp at hx
    · intro a' h' hlt _ hend
      exfalso
      simp only [List.nil_append, hS] at hend
      have : 2 ^ h < 2 ^ h' := Nat.pow_lt_pow_right (by decide) hlt
      omega
  | cons lhs rest' ih =>
    intro h L S hstk hS hb
    cases hstk with
    | @cons _ h' L' S' _ h1 h2 h3 =>
      have hh : h < 63 := pow_lt_63 (n := (L' ++ S').length + S.length) (by omega) hb
      have hx := Nat.pow_pos (n := h) (show 0 < 2 by decide)
      have hh' : h' < 63 := pow_lt_63 (n := (L' ++ S').length + S.length) (by rw [List.length_append]; omega) hb
      unfold mergeLoop
      simp only [peakPos_height (show h < 64 by omega), peakPos_height (show h' < 64 by omega)]
      by_cases heq : h = h'
      · subst heq
        simp only [ne_eq, not_true_eq_false, if_false]
        rw [List.length_append] at hb
        rw [peakPos_parent (Nat.le_refl 1) h3.dvd (by omega)]
        simp only [createNode]
        rw [← mth_append_pow2 H S' S h2 (by omega) (by omega)]
        have hS2 : (S' ++ S).length = 2 ^ (h + 1) := by rw [List.length_append, h2, hS, Nat.pow_succ]; omega
        obtain ⟨st, created, hrun, hst, hcs, hcc⟩ := ih (h + 1) L' (S' ++ S) h3 hS2 (by rw [List.length_append]; omega)
        rw [hrun]
        have hassoc : L' ++ S' ++ S = L' ++ (S' ++ S) := List.append_assoc _ _ _
        have hnew : (⟨peakPos 1 L'.length (h + 1), mth H (S' ++ S)⟩ : Node) =
            ⟨bpos L'.length (h + 1), mth H (seg (L' ++ S' ++ S) L'.length (h + 1))⟩ := by
          rw [hassoc, seg_suffix hS2, bpos_eq_peakPos h3.dvd]
        refine ⟨st, _, rfl, ?_, ?_, ?_⟩
        · rw [hassoc]; exact hst.mono (by omega)
        · intro x hxm
          rcases List.mem_cons.mp hxm with hx1 | hx1
          · refine ⟨L'.length, h + 1, by omega, h3.dvd, ?_, ?_⟩
            · simp only [List.length_append, h2, hS, Nat.pow_succ]; omega
            · rw [hx1]; exact hnew
          · obtain ⟨a', hh2, hlt, hdv, hend, hxe⟩ := hcs x hx1
            exact ⟨a', hh2, by omega, hdv, by rw [hassoc]; exact hend, by rw [hassoc]; exact hxe⟩
        · intro a' hh2 hlt hdv hend
          rcases Nat.lt_or_ge (h + 1) hh2 with hgt | hle
          · have := hcc a' hh2 hgt hdv (by rw [← hassoc]; exact hend)
            rw [hassoc]
            exact List.mem_cons_of_mem _ this
          · have hh2e : hh2 = h + 1 := by omega
            subst hh2e
            have ha' : a' = L'.length := by
              simp only [List.length_append, h2, hS, Nat.pow_succ] at hend; omega
            subst ha'
            rw [← hnew]
            exact List.mem_cons_self
      · simp only [ne_eq, heq, not_false_eq_true, if_true]
        refine ⟨_, _, rfl, .cons (Nat.le_refl _) hS (.cons (by omega) h2 h3), ?_, ?_⟩
        · intro x hx; simp at hx
        · intro a' hh2 hlt hdv hend
          exfalso
          have hdL : 2 ^ (h + 1) ∣ (L' ++ S').length := (Stk.cons (lo := h + 1) (by omega) h2 h3).dvd
          have hd2 : 2 ^ (h + 1) ∣ a' + 2 ^ hh2 :=
            Nat.dvd_add (pow_dvd_of_le_dvd (by omega) hdv) (Nat.pow_dvd_pow 2 (by omega))
          rw [hend, List.length_append, hS] at hd2
          have : 2 ^ (h + 1) ∣ 2 ^ h := (Nat.dvd_add_right hdL).mp hd2
          have := Nat.le_of_dvd hx this
          rw [Nat.pow_succ] at this
          omega

theorem seg_append_of_le {D : List Bytes} {a h : Nat} (x : List Bytes) (hle : a + 2 ^ h ≤ D.length) :
    seg (D ++ x) a h = seg D a h := by
  unfold seg
  have hp := Nat.pow_pos (n := h) (show 0 < 2 by decide)
  rw [List.drop_append_of_le_length (by omega), List.take_append_of_le_length (by rw [List.length_drop]; omega)]

/-- one `MerkleTree::push`: the storage records every complete aligned block below the new count -/
theorem treePush_store (H : HashFn) {D : List Bytes} {t : Tree} (d : Bytes)
    (hst : Stk (mth H) 1 0 D t.nodes) (hc : t.leavesCount = D.length) (hb : D.length + 1 < 2 ^ 63)
    (hsi : StoreInv H D t.storage) :
    ∃ t', t.push H d = .ok t' ∧ Stk (mth H) 1 0 (D ++ [d]) t'.nodes ∧ t'.leavesCount = (D ++ [d]).length ∧
      StoreInv H (D ++ [d]) t'.storage := by
  obtain ⟨st', created, hrun, hst', hcs, hcc⟩ := mergeLoop_full H t.nodes 0 D [d] hst rfl (by simpa using hb)
  rw [peakPos_one_leaf, mth_singleton] at hrun
  have hlt : 2 * D.length < 2 ^ 64 := by omega
  have hleafseg : seg (D ++ [d]) D.length 0 = [d] := seg_suffix (h := 0) rfl
  let leaf : Node := ⟨2 * D.length, leafSum H d⟩
  have hleaf : leaf = ⟨bpos D.length 0, mth H (seg (D ++ [d]) D.length 0)⟩ := by
    simp only [leaf, hleafseg, mth_singleton, bpos, Nat.pow_zero]; rfl
  -- every node written by this push is an aligned block ending at the new count
  have hall : ∀ x ∈ leaf :: created, ∃ a' h', 2 ^ h' ∣ a' ∧ a' + 2 ^ h' = (D ++ [d]).length ∧
      x = ⟨bpos a' h', mth H (seg (D ++ [d]) a' h')⟩ := by
    intro x hx
    rcases List.mem_cons.mp hx with h1 | h1
    · exact ⟨D.length, 0, Nat.one_dvd _, by simp, by rw [h1]; exact hleaf⟩
    · obtain ⟨a', h', _, hdv, hend, hxe⟩ := hcs x h1
      exact ⟨a', h', hdv, hend, hxe⟩
  have h64 : ∀ a' h', a' + 2 ^ h' = (D ++ [d]).length → h' < 64 := by
    intro a' h' hend
    have : 2 ^ h' ≤ D.length + 1 := by simp at hend; omega
    have := pow_lt_63 this hb
    omega
  refine ⟨{ storage := (leaf :: created).foldl Storage.insert t.storage, nodes := st',
            leavesCount := t.leavesCount + 1 }, ?_, hst', by simp [hc], ?_⟩
  · simp only [Tree.push, createLeaf, fromLeafIndex, hc, hlt, if_true, Option.map_some, pushWithCallback, hrun, leaf]
  · intro a h hdv hle
    simp only [List.length_append, List.length_singleton] at hle
    have hh64 : h < 64 := by
      have : 2 ^ h ≤ D.length + 1 := by omega
      have := pow_lt_63 this hb
      omega
    rcases Nat.lt_or_ge (a + 2 ^ h) (D.length + 1) with hold | hnew
    · -- an old block: untouched by this push
      have hne : ∀ y ∈ leaf :: created, y.pos ≠ bpos a h := by
        intro y hy he
        obtain ⟨a', h', hdv', hend, hye⟩ := hall y hy
        rw [hye] at he
        simp only at he
        obtain ⟨e1, e2⟩ := bpos_inj hdv' hdv (h64 a' h' hend) hh64 he
        subst e1; subst e2
        simp at hend; omega
      show Storage.get ((leaf :: created).foldl Storage.insert t.storage) (bpos a h) = _
      rw [get_foldl_insert_of_not_mem _ _ _ hne, hsi a h hdv (by omega), seg_append_of_le [d] (by omega)]
    · -- a new block: written by this push
      have hend : a + 2 ^ h = (D ++ [d]).length := by simp; omega
      have hmem : (⟨bpos a h, mth H (seg (D ++ [d]) a h)⟩ : Node) ∈ leaf :: created := by
        rcases Nat.eq_zero_or_pos h with h0 | hpos
        · subst h0
          have ha : a = D.length := by simp at hend; omega
          subst ha
          rw [← hleaf]; exact List.mem_cons_self
        · exact List.mem_cons_of_mem _ (hcc a h hpos hdv hend)
      have huniq : ∀ y ∈ leaf :: created, y.pos = (⟨bpos a h, mth H (seg (D ++ [d]) a h)⟩ : Node).pos →
          y = ⟨bpos a h, mth H (seg (D ++ [d]) a h)⟩ := by
        intro y hy he
        obtain ⟨a', h', hdv', hend', hye⟩ := hall y hy
        rw [hye] at he
        simp only at he
        obtain ⟨e1, e2⟩ := bpos_inj hdv' hdv (h64 a' h' hend') hh64 he
        subst e1; subst e2
        exact hye
      show Storage.get ((leaf :: created).foldl Storage.insert t.storage) (bpos a h) = _
      exact get_foldl_insert_of_mem _ _ _ hmem huniq

/-! ### the scratch storage of `root_node` -/

/-- a valid block that starts inside the top peak cannot stick out of the tree -/
theorem no_sticking_in_top {a h A h0 : Nat} (hd : 2 ^ h ∣ a) (hA : 2 ^ (h0 + 1) ∣ A) (hle : A ≤ a) (hh : 1 ≤ h)
    (h1 : a + 2 ^ (h - 1) < A + 2 ^ h0) (h2 : A + 2 ^ h0 < a + 2 ^ h) : False := by
  have hlt : 2 ^ (h - 1) < 2 ^ h0 := by omega
  have hh0 : h ≤ h0 := by have := pow_lt_imp hlt; omega
  have hdA : 2 ^ h ∣ A + 2 ^ h0 :=
    Nat.dvd_add (pow_dvd_of_le_dvd (by omega) hA) (Nat.pow_dvd_pow 2 hh0)
  have hp := Nat.pow_pos (n := h - 1) (show 0 < 2 by decide)
  have := aligned_step hd hdA (by omega)
  omega

/-- a valid sticking-out block that starts inside the peak `(A, h')` (followed by `0 < r < 2^h'` more
leaves) is the right-spine node above that peak -/
theorem sticking_in_peak {a h A h' r : Nat} (hd : 2 ^ h ∣ a) (hA : 2 ^ (h' + 1) ∣ A) (hle : A ≤ a)
    (hlt : a < A + 2 ^ h') (hh : 1 ≤ h) (hr0 : 0 < r) (hr : r < 2 ^ h')
    (h1 : a + 2 ^ (h - 1) < A + 2 ^ h' + r) (h2 : A + 2 ^ h' + r < a + 2 ^ h) : a = A ∧ h = h' + 1 := by
  have hge : h' + 1 ≤ h := by
    rcases Nat.lt_or_ge h' h with hc | hc
    · omega
    · exfalso
      have hdA : 2 ^ h ∣ A + 2 ^ h' :=
        Nat.dvd_add (pow_dvd_of_le_dvd (by omega) hA) (Nat.pow_dvd_pow 2 hc)
      have := aligned_step hd hdA hlt
      omega
  have hle2 : h ≤ h' + 1 := by
    have e : 2 ^ (h' + 1) = 2 ^ h' + 2 ^ h' := by rw [Nat.pow_succ]; omega
    have : 2 ^ (h - 1) < 2 ^ (h' + 1) := by omega
    have := pow_lt_imp this
    omega
  have hheq : h = h' + 1 := by omega
  subst hheq
  have e : 2 ^ (h' + 1) = 2 ^ h' + 2 ^ h' := by rw [Nat.pow_succ]; omega
  exact ⟨aligned_between (Nat.pow_pos (by decide)) hA hd hle (by omega), rfl⟩

/-- the fold of `root_node` with its scratch storage: besides the root, the scratch storage gains
exactly the right-spine nodes — every valid aligned block that starts left of `R` and sticks out of
the tree, with the tree hash of the leaves from its start to the end -/
theorem rootNodeLoop_full (H : HashFn) :
    ∀ (lefts : List Node) (lo : Nat) (L R : List Bytes) (pos : Nat) (scratch : Storage),
      Stk (mth H) 1 lo L lefts → 0 < R.length → R.length < 2 ^ lo → L.length + R.length < 2 ^ 63 →
      ∃ p scratch', rootNodeLoop H ⟨pos, mth H R⟩ scratch lefts = .ok (⟨p, mth H (L ++ R)⟩, scratch') ∧
        (∀ a h, 1 ≤ h → 2 ^ h ∣ a → a < L.length → a + 2 ^ (h - 1) < L.length + R.length →
          L.length + R.length < a + 2 ^ h →
          scratch'.get (bpos a h) = some ⟨bpos a h, mth H ((L ++ R).drop a)⟩) ∧
        (∀ key, (∀ a h, 2 ^ h ∣ a → h < 64 → a < L.length → L.length + R.length < a + 2 ^ h → key ≠ bpos a h) →
          scratch'.get key = scratch.get key) := by
  intro lefts
  induction lefts with
  | nil =>
    intro lo L R pos scratch hstk _ _ _
    cases hstk
    refine ⟨pos, scratch, rfl, ?_, fun _ _ => rfl⟩
    intro a h _ _ ha
    simp at ha
  | cons lhs rest' ih =>
    intro lo L R pos scratch hstk hR0 hR hb
    cases hstk with
    | @cons _ h' L' S' _ h1 h2 h3 =>
      rw [List.length_append] at hb
      have hlo : 2 ^ lo ≤ 2 ^ h' := Nat.pow_le_pow_right (by decide) h1
      have hp' := Nat.pow_pos (n := h') (show 0 < 2 by decide)
      have e2 : 2 ^ (h' + 1) = 2 ^ h' + 2 ^ h' := by rw [Nat.pow_succ]; omega
      have hh' : h' < 63 := pow_lt_63 (n := L'.length + S'.length + R.length) (by omega) hb
      unfold rootNodeLoop
      simp only
      rw [peakPos_parent (Nat.le_refl 1) h3.dvd (by omega)]
      simp only [createNode]
      rw [← mth_append_pow2 H S' R h2 hR0 (by omega)]
      obtain ⟨p, sc, hrun, hQ, hF⟩ := ih (h' + 1) L' (S' ++ R) (peakPos 1 L'.length (h' + 1))
        (scratch.insert ⟨peakPos 1 L'.length (h' + 1), mth H (S' ++ R)⟩) h3
        (by rw [List.length_append]; omega)
        (by rw [List.length_append, h2]; omega)
        (by rw [List.length_append]; omega)
      have hassoc : L' ++ S' ++ R = L' ++ (S' ++ R) := List.append_assoc _ _ _
      have hlen : (L' ++ S').length + R.length = L'.length + (S' ++ R).length := by
        simp only [List.length_append]; omega
      have hkey : peakPos 1 L'.length (h' + 1) = bpos L'.length (h' + 1) := (bpos_eq_peakPos h3.dvd).symm
      rw [hassoc]
      refine ⟨p, sc, hrun, ?_, ?_⟩
      · intro a h hh hd ha hv hs
        rw [hlen] at hv hs
        rcases Nat.lt_or_ge a L'.length with hin | hout
        · exact hQ a h hh hd hin hv hs
        · -- the block starts inside the peak `S'`: it is the node just inserted
          simp only [List.length_append, h2] at ha hv hs
          obtain ⟨ea, eh⟩ := sticking_in_peak hd h3.dvd hout ha hh hR0 (by omega) (by omega) (by omega)
          subst ea; subst eh
          rw [hF (bpos L'.length (h' + 1)) (fun a2 hh2 hd2 h642 ha2 _ he => by
            obtain ⟨e1, _⟩ := bpos_inj h3.dvd hd2 (by omega) h642 he
            omega)]
          rw [← hkey, get_insert_self, List.drop_left']
          rfl
      · intro key hk
        rw [hF key (fun a h hd h64 ha hs => hk a h hd h64 (by rw [List.length_append]; omega) (by rw [hlen]; exact hs))]
        apply get_insert_ne
        simp only
        rw [hkey]
        exact fun he => hk L'.length (h' + 1) h3.dvd (by omega) (by rw [List.length_append]; omega)
          (by simp only [List.length_append, h2]; omega) he.symm

/-! ### the tree invariant -/

/-- the invariant of a storage-backed tree holding exactly the leaves `D` -/
structure TreeInv (H : HashFn) (D : List Bytes) (t : Tree) : Prop where
  stk : Stk (mth H) 1 0 D t.nodes
  count : t.leavesCount = D.length
  store : StoreInv H D t.storage

theorem TreeInv.new (H : HashFn) (storage : Storage) : TreeInv H [] (Tree.new storage) :=
  ⟨.nil 0, rfl, fun a h _ hle => by
    have := Nat.pow_pos (n := h) (show 0 < 2 by decide)
    simp at hle⟩

theorem TreeInv.push {H : HashFn} {D : List Bytes} {t : Tree} (inv : TreeInv H D t) (d : Bytes)
    (hb : D.length + 1 < 2 ^ 63) : ∃ t', t.push H d = .ok t' ∧ TreeInv H (D ++ [d]) t' := by
  obtain ⟨t', h1, h2, h3, h4⟩ := treePush_store H d inv.stk inv.count hb inv.store
  exact ⟨t', h1, h2, h3, h4⟩

theorem TreeInv.reset {H : HashFn} {D : List Bytes} {t : Tree} (_inv : TreeInv H D t) :
    TreeInv H [] (t.resetWith true) :=
  ⟨.nil 0, rfl, fun a h _ hle => by
    have := Nat.pow_pos (n := h) (show 0 < 2 by decide)
    simp at hle⟩

/-- `root_node` of a non-empty tree: the root hashes the leaves and the lookups of `prove` succeed -/
theorem TreeInv.rootNode_lookOk {H : HashFn} {D : List Bytes} {t : Tree} (inv : TreeInv H D t)
    (hne : D ≠ []) (hb : D.length < 2 ^ 63) :
    ∃ rootN scratch, t.rootNode H = .ok (some rootN, scratch) ∧ rootN.hash = mth H D ∧
      LookOk H D scratch t.storage := by
  have hstk := inv.stk
  unfold Tree.rootNode
  generalize hn : t.nodes = nodes at hstk
  cases hstk with
  | nil => exact absurd rfl hne
  | @cons _ h0 L' S rest h1 h2 h3 =>
    have hp0 := Nat.pow_pos (n := h0) (show 0 < 2 by decide)
    rw [List.length_append] at hb
    obtain ⟨p, sc, hrun, hQ, hF⟩ := rootNodeLoop_full H rest (h0 + 1) L' S (peakPos 1 L'.length h0) [] h3
      (by omega) (by rw [h2, Nat.pow_succ]; omega) hb
    refine ⟨⟨p, mth H (L' ++ S)⟩, sc, by simp only [hrun], rfl, ?_⟩
    intro a h hd h64 hv
    have hnpos : 1 ≤ (L' ++ S).length := by rw [List.length_append]; omega
    rcases Nat.lt_or_ge (L' ++ S).length (a + 2 ^ h) with hout | hin
    · -- the block sticks out of the tree: it is a right-spine node, found in the scratch storage
      have hh1 : 1 ≤ h := by
        rcases Nat.eq_zero_or_pos h with h0' | hpos
        · subst h0'
          have := (validB_zero hnpos).mp hv
          simp only [Nat.pow_zero] at hout; omega
        · exact hpos
      obtain ⟨hm, rfl⟩ : ∃ hm, h = hm + 1 := ⟨h - 1, by omega⟩
      have hv' := (validB_succ hnpos).mp hv
      simp only [List.length_append] at hv' hout
      have haL : a < L'.length := by
        rcases Nat.lt_or_ge a L'.length with hc | hc
        · exact hc
        · exfalso
          rw [h2] at hv' hout
          exact no_sticking_in_top hd h3.dvd hc (by omega) (by simpa using hv') hout
      have := hQ a (hm + 1) (by omega) hd haL (by simpa using hv') hout
      refine ⟨_, by unfold lookNode; rw [this], ?_⟩
      simp only
      congr 1
      unfold seg
      rw [List.take_of_length_le]
      rw [List.length_drop, List.length_append]; omega
    · -- the block lies inside the tree: not in the scratch storage, recorded in the tree's storage
      have hnone : sc.get (bpos a h) = none := by
        rw [hF (bpos a h) (fun a2 hh2 hd2 h642 _ hs he => by
          obtain ⟨e1, e2⟩ := bpos_inj hd hd2 h64 h642 he
          subst e1; subst e2
          rw [List.length_append] at hin; omega)]
        rfl
      have hs := inv.store a h hd hin
      exact ⟨_, by unfold lookNode; rw [hnone, hs], rfl⟩

/-- **`MerkleTree::prove` on a tree holding `D`**: the root is the RFC 6962 tree hash and the proof set
is the RFC 6962 audit path `PATH(i, D)` -/
theorem TreeInv.prove {H : HashFn} {D : List Bytes} {t : Tree} (inv : TreeInv H D t) (hb : D.length < 2 ^ 63)
    (i : Nat) (hi : i < D.length) : t.prove H i = .ok (mth H D, auditPath H i D) := by
  have hne : D ≠ [] := by intro h; subst h; simp at hi
  obtain ⟨rootN, scratch, hroot, hrh, hlk⟩ := inv.rootNode_lookOk hne hb
  exact prove_of_lookOk H t D i hi hb inv.count rootN scratch hroot hrh hlk

theorem TreeInv.prove_refuses {H : HashFn} {D : List Bytes} {t : Tree} (inv : TreeInv H D t)
    (i : Nat) (hi : D.length ≤ i) : t.prove H i = .error (.invalidProofIndex i) := by
  unfold Tree.prove
  rw [if_pos (by rw [inv.count]; exact hi)]

theorem TreeInv.root {H : HashFn} (hE : H [] = emptySum) {D : List Bytes} {t : Tree} (inv : TreeInv H D t)
    (hb : D.length < 2 ^ 63) : t.root H = .ok (mth H D) := by
  rw [treeRoot_stk (segOk_mth H) (Nat.le_refl 1) inv.stk hb]
  by_cases h : D = []
  · subst h; rw [if_pos rfl, mth, hE]
  · rw [if_neg h]

/-! ### `load` -/

/-- `positionPath` from the root of any full tree of height `Ht` that holds the `n` leaves -/
theorem positionPath_sides_gen {n i Ht : Nat} (hi : i < n) (hfit : n ≤ 2 ^ Ht) (h64 : Ht < 64) :
    ∃ pairs, positionPath (bpos 0 Ht) (2 * i) n = .ok pairs ∧
      ((pairs.map (·.2)).reverse.dropLast) = (ab n i Ht 0).map (fun b => rpos n b.1 b.2) := by
  have hn : 1 ≤ n := by omega
  have hd0 : 2 ^ Ht ∣ 0 := Nat.dvd_zero _
  unfold positionPath
  rw [if_neg (by omega), bpos_height hd0 h64, Nat.mul_div_cancel_left _ (by decide : 0 < 2)]
  by_cases hv : validB n 0 Ht
  · obtain ⟨pairs, hrun, hsides⟩ := filterPath_ab hi Ht 0 none [] hd0 (Nat.zero_le _) (by omega) h64 (Or.inl ⟨hv, rfl, rfl⟩)
    have hle : bpos 0 Ht ≤ 2 * (n - 1) := hv
    have hdesc := descendLeft_bpos hn (by omega : 0 < n) Ht
    refine ⟨(bpos 0 Ht, rpos n 0 Ht) :: pairs, ?_, ?_⟩
    · simp only [filterPath, hle, if_true, bpos_height hd0 h64, hdesc, hrun]
    · simp only [List.map_cons, List.reverse_cons, hsides, List.append_nil, List.dropLast_concat]
  · have hdesc := descendLeft_bpos hn (by omega : 0 < n) Ht
    obtain ⟨pairs, hrun, hsides⟩ := filterPath_ab hi Ht 0 (some (bpos 0 Ht)) [rpos n 0 Ht] hd0
      (Nat.zero_le _) (by omega) h64
      (Or.inr ⟨hv, _, _, rfl, by rw [bpos_height hd0 h64]; exact hdesc, rfl⟩)
    have hle : ¬ bpos 0 Ht ≤ 2 * (n - 1) := hv
    refine ⟨pairs, ?_, ?_⟩
    · simp only [filterPath, hle, if_false, hrun]
    · rw [hsides, List.dropLast_concat]

theorem drop_one_eq {α : Type} : ∀ (l : List α), l.drop 1 = (l.reverse.dropLast).reverse
  | [] => rfl
  | x :: l => by simp [List.dropLast_concat]

/-- the node the storage records for an aligned block of `D` -/
def nodeOf (H : HashFn) (D : List Bytes) (b : Nat × Nat) : Node := ⟨bpos b.1 b.2, mth H (seg D b.1 b.2)⟩

theorem take_add_seg {D : List Bytes} {a h : Nat} : D.take (a + 2 ^ h) = D.take a ++ seg D a h := by
  unfold seg
  rw [List.take_add]

/-- the audit path of the NEXT leaf (index `k` in a tree of `k+1` leaves) consists of the MMR peaks of
the first `k` leaves: pushed on `rest0` they form the stack of a tree holding `D.take k` -/
theorem ab_last_stk (H : HashFn) (D : List Bytes) {k : Nat} (hk : k ≤ D.length) :
    ∀ (h a : Nat) (rest0 : List Node), 2 ^ h ∣ a → a ≤ k → k < a + 2 ^ h →
      Stk (mth H) 1 h (D.take a) rest0 →
      Stk (mth H) 1 0 (D.take k) ((ab (k + 1) k h a).map (nodeOf H D) ++ rest0) ∧
      ∀ b ∈ ab (k + 1) k h a, 2 ^ b.2 ∣ b.1 ∧ b.1 + 2 ^ b.2 ≤ k
  | 0, a, rest0, _, h1, h2, hst => by
    have hak : a = k := by simp only [Nat.pow_zero] at h2; omega
    subst hak
    exact ⟨by simpa [ab] using hst, by intro b hb; simp [ab] at hb⟩
  | h + 1, a, rest0, hd, h1, h2, hst => by
    obtain ⟨hdr, hdl⟩ := dvd_add_pow hd
    have hp := Nat.pow_pos (n := h) (show 0 < 2 by decide)
    have e2 : 2 ^ (h + 1) = 2 ^ h + 2 ^ h := by rw [Nat.pow_succ]; omega
    by_cases hge : k + 1 ≤ a + 2 ^ h
    · rw [ab_succ_collapse hge]
      exact ab_last_stk H D hk h a rest0 hdl h1 (by omega) (hst.mono (by omega))
    · rw [ab_succ_right hge (by omega)]
      have hlen : (seg D a h).length = 2 ^ h := by rw [seg_length]; omega
      have hst' : Stk (mth H) 1 h (D.take (a + 2 ^ h)) (nodeOf H D (a, h) :: rest0) := by
        rw [take_add_seg]
        have := Stk.cons (seg := mth H) (m := 1) (lo := h) (Nat.le_refl h) hlen hst
        rw [List.length_take, Nat.min_eq_left (by omega), ← bpos_eq_peakPos hdl] at this
        exact this
      obtain ⟨hs, hbk⟩ := ab_last_stk H D hk h (a + 2 ^ h) (nodeOf H D (a, h) :: rest0) hdr (by omega) (by omega) hst'
      refine ⟨by simpa [List.map_append] using hs, ?_⟩
      intro b hb
      rcases List.mem_append.mp hb with hb | hb
      · exact hbk b hb
      · simp only [List.mem_singleton] at hb; subst hb
        exact ⟨hdl, by simp only; omega⟩

theorem loadPeaks_blocks (H : HashFn) (D : List Bytes) (storage : Storage) (hsi : StoreInv H D storage) :
    ∀ (blocks : List (Nat × Nat)), (∀ b ∈ blocks, 2 ^ b.2 ∣ b.1 ∧ b.1 + 2 ^ b.2 ≤ D.length) →
      loadPeaks storage (blocks.map (fun b => bpos b.1 b.2)) = .ok (blocks.map (nodeOf H D))
  | [], _ => rfl
  | b :: bs, hb => by
    obtain ⟨hd, hle⟩ := hb b (List.mem_cons_self)
    have ih := loadPeaks_blocks H D storage hsi bs (fun b' hb' => hb b' (List.mem_cons_of_mem _ hb'))
    simp only [List.map_cons, loadPeaks, hsi b.1 b.2 hd hle, ih, nodeOf]

theorem StoreInv.take {H : HashFn} {D : List Bytes} {storage : Storage} (hsi : StoreInv H D storage) (k : Nat) :
    StoreInv H (D.take k) storage := by
  intro a h hd hle
  rw [List.length_take] at hle
  rw [hsi a h hd (by omega)]
  congr 2
  unfold seg
  have hp := Nat.pow_pos (n := h) (show 0 < 2 by decide)
  rw [List.drop_take, List.take_take, Nat.min_eq_left (by omega)]

/-- **`MerkleTree::load(storage, k)`** at any recorded count `k ≤ |D|` yields a tree holding `D.take k` -/
theorem TreeInv.load {H : HashFn} {D : List Bytes} {t : Tree} (inv : TreeInv H D t) (hb : D.length < 2 ^ 63)
    (k : Nat) (hk : k ≤ D.length) : ∃ t', Tree.load t.storage k = .ok t' ∧ TreeInv H (D.take k) t' := by
  -- root position of `load`: `root_position(k)`, a full tree of height `Ht` with `k + 1 ≤ 2^Ht`
  obtain ⟨Ht, hrp, hfit, h64⟩ : ∃ Ht, rootPosition k = some (bpos 0 Ht) ∧ k + 1 ≤ 2 ^ Ht ∧ Ht < 64 := by
    rcases Nat.eq_zero_or_pos k with rfl | hpos
    · exact ⟨0, by simp [rootPosition, nextPow2, bpos], by simp, by decide⟩
    · obtain ⟨h1, h2, h3⟩ := rootPosition_eq hpos (by omega)
      exact ⟨treeHt k, h1, by omega, h3⟩
  obtain ⟨pairs, hpp, hsides⟩ := positionPath_sides_gen (n := k + 1) (i := k) (by omega) hfit h64
  obtain ⟨hstk, hblocks⟩ := ab_last_stk H D hk Ht 0 [] (Nat.dvd_zero _) (Nat.zero_le _) (by omega) (.nil _)
  rw [List.append_nil] at hstk
  have hrpos : ∀ b ∈ ab (k + 1) k Ht 0, rpos (k + 1) b.1 b.2 = bpos b.1 b.2 := by
    intro b hb
    obtain ⟨_, hle⟩ := hblocks b hb
    have hp := Nat.pow_pos (n := b.2) (show 0 < 2 by decide)
    have hv : validB (k + 1) b.1 b.2 := by unfold validB bpos; omega
    unfold rpos; rw [rh_of_valid hv]
  have hpeaks : (pairs.drop 1).map (·.2) = ((ab (k + 1) k Ht 0).reverse).map (fun b => bpos b.1 b.2) := by
    rw [List.map_drop, drop_one_eq, hsides, List.map_reverse]
    congr 1
    exact List.map_congr_left hrpos
  have hload := loadPeaks_blocks H D t.storage inv.store (ab (k + 1) k Ht 0).reverse
    (fun b hb => by obtain ⟨x, y⟩ := hblocks b (List.mem_reverse.mp hb); exact ⟨x, by omega⟩)
  refine ⟨{ storage := t.storage, nodes := ((ab (k + 1) k Ht 0).reverse.map (nodeOf H D)).reverse, leavesCount := k }, ?_, ?_⟩
  · unfold Tree.load peakPositions
    simp only [fromLeafIndex, show 2 * k < 2 ^ 64 by omega, if_true, hrp, hpp, hpeaks, hload]
  · refine ⟨?_, by simp [List.length_take, Nat.min_eq_left hk], inv.store.take k⟩
    simp only [List.map_reverse, List.reverse_reverse]
    exact hstk

theorem treePushAll_inv (H : HashFn) : ∀ (ds L : List Bytes) (t : Tree),
    TreeInv H L t → L.length + ds.length < 2 ^ 63 →
    ∃ t', treePushAll H t ds = .ok t' ∧ TreeInv H (L ++ ds) t'
  | [], L, t, inv, _ => ⟨t, rfl, by simpa using inv⟩
  | d :: ds, L, t, inv, hb => by
    simp only [List.length_cons] at hb
    obtain ⟨t1, h1, inv1⟩ := inv.push d (by omega)
    obtain ⟨t2, h2, inv2⟩ := treePushAll_inv H ds (L ++ [d]) t1 inv1
      (by simp only [List.length_append, List.length_singleton]; omega)
    exact ⟨t2, by simp only [treePushAll, h1, h2], by simpa using inv2⟩

end FuelVerif.BMT
