/- Helper lemmas for C32 (Props/C32.lean): one-iteration unfolding of the transcribed `run_program` loop,
the debugger gate in closed form, and the simulation between a debugged-and-resumed run and the plain run. -/
import FuelVerif.Model.Debug
namespace FuelVerif.Debug
variable {σ ε : Type}

/-- the debugger gate of `instruction_per_inner`: new debugger and the event, if one is reported -/
def gate (m : Machine σ ε) (dbg : Debugger) (s : σ) : Debugger × Option DebugEval :=
  if dbg.isActive then
    let r := evalDebuggerState m dbg s
    if r.2.shouldContinue then (r.1, none) else (r.1, some r.2)
  else (dbg, none)

theorem loop_succ (m : Machine σ ε) (f : Nat) (dbg : Debugger) (s : σ) :
    loop m (f + 1) dbg s =
      match m.fetch s with
      | .error e => some (dbg, (stepFetchErr m e s).1, (stepFetchErr m e s).2)
      | .ok raw =>
        match gate m dbg s with
        | (dbg', some ev) => some (dbg'.setLastState (.runProgram ev), s, .event ev)
        | (dbg', none) =>
          match stepExec m raw s with
          | .cont s' => loop m f dbg' s'
          | .stop s' r => some (dbg', s', r) := by
  rw [loop]
  simp only [execute]
  cases hf : m.fetch s with
  | error e =>
    simp only [stepFetchErr]
    cases m.panicReceipt e s <;> rfl
  | ok raw =>
    unfold instructionPerInner gate stepExec
    rcases hx : m.exec raw s with ⟨s', r⟩
    by_cases ha : dbg.isActive = true
    · simp only [ha, if_true]
      cases hc : (evalDebuggerState m dbg s).2.shouldContinue
      · simp
      · simp only [Bool.not_true, Bool.false_eq_true, if_false, if_true, hx]
        cases r with
        | error e => simp only [Except.map]; cases m.panicReceipt e s' <;> rfl
        | ok o => cases o <;> simp only [Except.map, InstrOut.toExecuteState] <;> (try split) <;> rfl
    · simp only [ha, Bool.false_eq_true, if_false, hx]
      cases r with
      | error e => simp only [Except.map]; cases m.panicReceipt e s' <;> rfl
      | ok o => cases o <;> simp only [Except.map, InstrOut.toExecuteState] <;> (try split) <;> rfl

theorem gate_eq (m : Machine σ ε) (act ss : Bool) (bps : List Breakpoint) (last : Option ProgramState) (s : σ) :
    gate m ⟨act, ss, bps, last⟩ s =
      if act && (ss || decide (here m s ∈ bps)) then
        (⟨act, ss, bps, none⟩, if lastMatch last (here m s) then none else some (.breakpoint (here m s)))
      else (⟨act, ss, bps, if act then none else last⟩, none) := by
  have hh : (⟨(m.loc s).1.getD zeroId, (m.loc s).2⟩ : Breakpoint) = here m s := rfl
  unfold gate evalDebuggerState Debugger.evalState Debugger.suppress lastMatch
  simp only [hh]
  generalize here m s = b
  cases act
  · simp
  · by_cases h : b ∈ bps <;> cases ss <;> cases last with
    | none => simp [h, DebugEval.shouldContinue]
    | some st => cases hq : st.eqBreakpoint b <;> simp [h, hq, DebugEval.shouldContinue]

theorem lastMatch_runProgram (b : Breakpoint) : lastMatch (some (.runProgram (.breakpoint b))) b = true := by
  simp [lastMatch, ProgramState.eqBreakpoint, ProgramState.debugRef]

/-- a way of leaving the loop that is not a debug event -/
def LoopOut.final : LoopOut ε → Prop
  | .event _ => False
  | .done _ st => st.debugRef = none
  | .fatal _ => True

theorem stepExec_final (m : Machine σ ε) {raw : Nat} {s s' : σ} {r : LoopOut ε}
    (h : stepExec m raw s = .stop s' r) : r.final := by
  unfold stepExec at h
  rcases hx : m.exec raw s with ⟨s1, x⟩
  rw [hx] at h
  cases x with
  | error e =>
    simp only at h
    cases hp : m.panicReceipt e s1 <;> rw [hp] at h <;> simp only [Next.stop.injEq] at h <;>
      (obtain ⟨_, rfl⟩ := h) <;> simp [LoopOut.final, ProgramState.debugRef]
  | ok o =>
    cases o <;> simp only at h
    · cases h
    · split at h
      · cases h
      · simp only [Next.stop.injEq] at h; obtain ⟨_, rfl⟩ := h; simp [LoopOut.final, ProgramState.debugRef]
    · split at h
      · cases h
      · simp only [Next.stop.injEq] at h; obtain ⟨_, rfl⟩ := h; simp [LoopOut.final, ProgramState.debugRef]
    · simp only [Next.stop.injEq] at h; obtain ⟨_, rfl⟩ := h; simp [LoopOut.final, ProgramState.debugRef]

theorem stepFetchErr_final (m : Machine σ ε) (e : ε) (s : σ) : (stepFetchErr m e s).2.final := by
  unfold stepFetchErr
  cases m.panicReceipt e s <;> simp [LoopOut.final, ProgramState.debugRef]

theorem afterLoop_eq (m : Machine σ ε) (dbg : Debugger) (s : σ) (r : LoopOut ε) :
    afterLoop m (dbg, s, r) = (dbg, (finishPlain m s r).1, (finishPlain m s r).2) := by
  unfold finishPlain
  cases r with
  | event d => rfl
  | fatal e => rfl
  | done x st =>
    simp only [afterLoop]
    rcases m.finish x st s with ⟨s', _ | e⟩ <;> rfl

theorem finishPlain_final (m : Machine σ ε) (s : σ) {r : LoopOut ε} (h : r.final) :
    (finishPlain m s r).2.debugOf = none := by
  unfold finishPlain
  cases r with
  | event d => exact absurd h (by simp [LoopOut.final])
  | fatal e => rfl
  | done x st =>
    simp only [afterLoop]
    rcases m.finish x st s with ⟨s', _ | e⟩
    · exact h
    · rfl

/-- what the transcribed loop guarantees about its own result -/
theorem loop_post (m : Machine σ ε) : ∀ (n : Nat) (dbg : Debugger) (s : σ) (dbg' : Debugger) (s' : σ) (r : LoopOut ε),
    loop m n dbg s = some (dbg', s', r) →
    match r with
    | .event d => dbg'.lastState = some (.runProgram d) ∧ dbg'.isActive = true
    | .done _ st => st.debugRef = none
    | .fatal _ => True := by
  intro n
  induction n with
  | zero => intro dbg s dbg' s' r h; simp [loop] at h
  | succ n ih =>
    intro dbg s dbg' s' r h
    rw [loop_succ] at h
    cases hf : m.fetch s with
    | error e =>
      rw [hf] at h
      simp only [Option.some.injEq, Prod.mk.injEq] at h
      obtain ⟨_, _, rfl⟩ := h
      have := stepFetchErr_final m e s
      revert this
      cases (stepFetchErr m e s).2 <;> simp [LoopOut.final]
    | ok raw =>
      rw [hf] at h
      simp only at h
      rcases hg : gate m dbg s with ⟨d1, _ | ev⟩
      · rw [hg] at h
        simp only at h
        cases hx : stepExec m raw s with
        | cont s1 => rw [hx] at h; exact ih _ _ _ _ _ h
        | stop s1 r1 =>
          rw [hx] at h
          simp only [Option.some.injEq, Prod.mk.injEq] at h
          obtain ⟨_, _, rfl⟩ := h
          have := stepExec_final m hx
          revert this
          cases r1 <;> simp [LoopOut.final]
      · rw [hg] at h
        simp only [Option.some.injEq, Prod.mk.injEq] at h
        obtain ⟨rfl, _, rfl⟩ := h
        simp [Debugger.setLastState]

theorem resume_eq (m : Machine σ ε) (hne : m.scriptEmpty = false) (fuel : Nat) (dbg : Debugger) (s : σ)
    (d : DebugEval) (hl : dbg.lastState = some (.runProgram d)) :
    resume m fuel dbg s = (loop m fuel dbg s).map (afterLoop m) := by
  unfold resume runProgram
  simp only [hl, hne, Bool.false_eq_true, if_false]
  cases h : loop m fuel dbg s with
  | none => rfl
  | some x =>
    obtain ⟨dbg', s', r⟩ := x
    have hp := loop_post m _ _ _ _ _ _ h
    simp only [Option.map_some]
    cases r with
    | event d' =>
      simp only at hp
      simp only [afterLoop, ProgramState.isDebug, ProgramState.debugRef, Option.isSome_some, if_true]
      obtain ⟨a, b, c, l⟩ := dbg'
      simp only at hp
      simp [Debugger.setLastState, hp.1, hp.2]
    | fatal e => rfl
    | done x st =>
      simp only at hp
      simp only [afterLoop]
      rcases m.finish x st s' with ⟨s'', _ | e⟩
      · simp [ProgramState.isDebug, hp]
      · rfl

/-- loop, then the rest of `run_program`, then resume-until-done -/
def contLoop (m : Machine σ ε) (lf fuel k : Nat) (dbg : Debugger) (s : σ) (evs : List (DebugEval × σ)) :=
  match loop m lf dbg s with
  | none => none
  | some x => drive m fuel k (afterLoop m x) evs

theorem drive_final (m : Machine σ ε) (fuel k : Nat) (dbg : Debugger) (s : σ) (r : LoopOut ε) (h : r.final)
    (evs : List (DebugEval × σ)) :
    drive m fuel k (afterLoop m (dbg, s, r)) evs = some (dbg, (finishPlain m s r).1, (finishPlain m s r).2, evs) := by
  rw [afterLoop_eq]
  cases k <;> simp [drive, finishPlain_final m s h]

theorem hits_cfg (act ss : Bool) (bps : List Breakpoint) (l l' : Option ProgramState) :
    hits ⟨act, ss, bps, l⟩ = hits ⟨act, ss, bps, l'⟩ := rfl

theorem laterEvents_cfg (act ss : Bool) (bps : List Breakpoint) (l l' : Option ProgramState)
    (tr : List (Breakpoint × σ)) :
    laterEvents ⟨act, ss, bps, l⟩ tr = laterEvents ⟨act, ss, bps, l'⟩ tr := rfl

@[simp] theorem laterEvents_nil (dbg : Debugger) : laterEvents dbg ([] : List (Breakpoint × σ)) = [] := rfl

theorem laterEvents_cons (dbg : Debugger) (b : Breakpoint) (s : σ) (tr : List (Breakpoint × σ)) :
    laterEvents dbg ((b, s) :: tr) =
      (if hits dbg b then [(DebugEval.breakpoint b, s)] else []) ++ laterEvents dbg tr := by
  unfold laterEvents
  rw [List.filter_cons]
  cases hits dbg b <;> simp

theorem expectedEvents_none (act ss : Bool) (bps : List Breakpoint) (last : Option ProgramState)
    (h : act = true → last = none) (tr : List (Breakpoint × σ)) :
    expectedEvents ⟨act, ss, bps, last⟩ tr = laterEvents ⟨act, ss, bps, last⟩ tr := by
  cases tr with
  | nil => rfl
  | cons x rest =>
    obtain ⟨b, s⟩ := x
    rw [laterEvents_cons, expectedEvents]
    cases act
    · simp [hits]
    · simp [h rfl, lastMatch]

theorem expectedEvents_cons (dbg : Debugger) (b : Breakpoint) (s : σ) (tr : List (Breakpoint × σ)) :
    expectedEvents dbg ((b, s) :: tr) =
      (if hits dbg b && !(lastMatch dbg.lastState b) then [(DebugEval.breakpoint b, s)] else [])
      ++ laterEvents dbg tr := rfl

/-- Simulation: whatever the debugger configuration and pending `last_state`, running the loop, finishing
`run_program` and resuming after every event reaches exactly the plain run's final VM state and outcome,
reporting exactly the expected events. -/
theorem contLoop_sim (m : Machine σ ε) (hne : m.scriptEmpty = false) :
    ∀ (n : Nat) (s s' : σ) (r : LoopOut ε) (tr : List (Breakpoint × σ)),
    plainLoop m n s = some (s', r, tr) →
    ∀ (act ss : Bool) (bps : List Breakpoint) (last : Option ProgramState) (lf fuel k : Nat)
      (evs : List (DebugEval × σ)), n ≤ lf → n ≤ fuel → n ≤ k →
    ∃ last', contLoop m lf fuel k ⟨act, ss, bps, last⟩ s evs =
      some (⟨act, ss, bps, last'⟩, (finishPlain m s' r).1, (finishPlain m s' r).2,
            evs ++ expectedEvents ⟨act, ss, bps, last⟩ tr) := by
  intro n
  induction n with
  | zero => intro s s' r tr h; simp [plainLoop] at h
  | succ n ih =>
    intro s s' r tr h act ss bps last lf fuel k evs hlf hfuel hk
    obtain ⟨lf', rfl⟩ : ∃ x, lf = x + 1 := ⟨lf - 1, by omega⟩
    unfold contLoop
    rw [loop_succ]
    rw [plainLoop] at h
    cases hf : m.fetch s with
    | error e =>
      rw [hf] at h
      simp only [Option.some.injEq, Prod.mk.injEq] at h
      obtain ⟨rfl, rfl, rfl⟩ := h
      simp only
      rw [drive_final m fuel k _ _ _ (stepFetchErr_final m e s)]
      exact ⟨last, by simp [expectedEvents]⟩
    | ok raw =>
      rw [hf] at h
      simp only at h ⊢
      rw [gate_eq]
      by_cases hh : (act && (ss || decide (here m s ∈ bps))) = true
      · simp only [hh, if_true]
        by_cases hm : lastMatch last (here m s) = true
        · -- suppressed by a pending last_state
          simp only [hm, if_true]
          cases hx : stepExec m raw s with
          | stop s1 r1 =>
            rw [hx] at h
            simp only [Option.some.injEq, Prod.mk.injEq] at h
            obtain ⟨rfl, rfl, rfl⟩ := h
            simp only
            rw [drive_final m fuel k _ _ _ (stepExec_final m hx)]
            refine ⟨none, ?_⟩
            simp [expectedEvents, hm]
          | cont s1 =>
            rw [hx] at h
            simp only at h ⊢
            cases hp : plainLoop m n s1 with
            | none => rw [hp] at h; cases h
            | some y =>
              obtain ⟨s2, r2, tr2⟩ := y
              rw [hp] at h
              simp only [Option.some.injEq, Prod.mk.injEq] at h
              obtain ⟨rfl, rfl, rfl⟩ := h
              obtain ⟨last', hi⟩ := ih _ _ _ _ hp act ss bps none lf' fuel k evs (by omega) (by omega) (by omega)
              unfold contLoop at hi
              refine ⟨last', ?_⟩
              rw [hi]
              rw [expectedEvents_none act ss bps none (fun _ => rfl), expectedEvents_cons]
              simp only [hm, Bool.not_true, Bool.and_false, Bool.false_eq_true, if_false, List.nil_append]
              rfl
        · -- an event is reported; the host resumes
          simp only [hm, Bool.false_eq_true, if_false]
          obtain ⟨k', rfl⟩ : ∃ x, k = x + 1 := ⟨k - 1, by omega⟩
          obtain ⟨fuel', rfl⟩ : ∃ x, fuel = x + 1 := ⟨fuel - 1, by omega⟩
          have hact : act = true := by
            cases act
            · simp at hh
            · rfl
          subst hact
          simp only [afterLoop, drive, Outcome.debugOf, ProgramState.debugRef]
          rw [resume_eq m hne _ _ _ (.breakpoint (here m s)) (by simp [Debugger.setLastState])]
          rw [loop_succ, hf]
          simp only [Debugger.setLastState]
          rw [gate_eq]
          simp only [hh, if_true, lastMatch_runProgram]
          have hev : expectedEvents ⟨true, ss, bps, last⟩ [(here m s, s)] = [(DebugEval.breakpoint (here m s), s)] := by
            have h1 : hits ⟨true, ss, bps, last⟩ (here m s) = true := by simpa [hits] using hh
            have h2 : lastMatch last (here m s) = false := by simpa using hm
            simp [expectedEvents, h1, h2]
          cases hx : stepExec m raw s with
          | stop s1 r1 =>
            rw [hx] at h
            simp only [Option.some.injEq, Prod.mk.injEq] at h
            obtain ⟨rfl, rfl, rfl⟩ := h
            simp only [Option.map_some]
            rw [drive_final m _ k' _ _ _ (stepExec_final m hx)]
            exact ⟨none, by rw [hev]⟩
          | cont s1 =>
            rw [hx] at h
            simp only at h ⊢
            cases hp : plainLoop m n s1 with
            | none => rw [hp] at h; cases h
            | some y =>
              obtain ⟨s2, r2, tr2⟩ := y
              rw [hp] at h
              simp only [Option.some.injEq, Prod.mk.injEq] at h
              obtain ⟨rfl, rfl, rfl⟩ := h
              obtain ⟨last', hi⟩ := ih _ _ _ _ hp true ss bps none fuel' (fuel' + 1) k'
                (evs ++ [(DebugEval.breakpoint (here m s), s)]) (by omega) (by omega) (by omega)
              unfold contLoop at hi
              refine ⟨last', ?_⟩
              cases hl : loop m fuel' ⟨true, ss, bps, none⟩ s1 with
              | none => rw [hl] at hi; cases hi
              | some z =>
                rw [hl] at hi
                simp only at hi
                simp only [Option.map_some]
                rw [hi]
                have h1 : hits ⟨true, ss, bps, last⟩ (here m s) = true := by simpa [hits] using hh
                have h2 : lastMatch last (here m s) = false := by simpa using hm
                rw [expectedEvents_none true ss bps none (fun _ => rfl), expectedEvents_cons]
                simp only [h1, h2, Bool.not_false, Bool.and_self, if_true, List.append_assoc]
                rfl
      · -- the location does not hit (or the debugger is inactive)
        simp only [hh, Bool.false_eq_true, if_false]
        have hno : hits ⟨act, ss, bps, last⟩ (here m s) = false := by
          simpa [hits] using hh
        cases hx : stepExec m raw s with
        | stop s1 r1 =>
          rw [hx] at h
          simp only [Option.some.injEq, Prod.mk.injEq] at h
          obtain ⟨rfl, rfl, rfl⟩ := h
          simp only
          rw [drive_final m fuel k _ _ _ (stepExec_final m hx)]
          exact ⟨(if act = true then none else last), by simp [expectedEvents, hno]⟩
        | cont s1 =>
          rw [hx] at h
          simp only at h ⊢
          cases hp : plainLoop m n s1 with
          | none => rw [hp] at h; cases h
          | some y =>
            obtain ⟨s2, r2, tr2⟩ := y
            rw [hp] at h
            simp only [Option.some.injEq, Prod.mk.injEq] at h
            obtain ⟨rfl, rfl, rfl⟩ := h
            obtain ⟨last', hi⟩ := ih _ _ _ _ hp act ss bps (if act = true then none else last) lf' fuel k evs
              (by omega) (by omega) (by omega)
            unfold contLoop at hi
            refine ⟨last', ?_⟩
            rw [hi]
            rw [expectedEvents_none act ss bps (if act = true then none else last) (fun h => by simp [h]),
              expectedEvents_cons]
            simp only [hno, Bool.false_and, Bool.false_eq_true, if_false, List.nil_append]
            rfl

end FuelVerif.Debug
