/-
Refinement of the storage-level sparse Merkle model (`Model/SparseStore.lean`, layer b) to the structural
tree (`Model/SparseTree.lean`, layer a) at fuel-merkle's types.

`Rep s t`: the state `s` (in-memory root node + node store) represents the structural tree `t`: the root
node is the node of `t`, and every node of `t` is stored under its hash with the height of its depth.
Garbage in the store is allowed.
-/
import FuelVerif.Lemmas.SparseBytes
import FuelVerif.Lemmas.SparseStore
namespace FuelVerif.SmtRefine
open FuelVerif FuelVerif.SmtStore FuelVerif.SmtBytes FuelVerif.Gen.Sparse FuelVerif.Smt

abbrev T := Tree Key32 Hash32

/-- `u` is a non-empty subtree of `t` -/
def IsSub (u : T) : T → Prop
  | .empty => False
  | .leaf k v => u = .leaf k v
  | .node l r => u = .node l r ∨ IsSub u l ∨ IsSub u r

theorem IsSub.ne_empty {u : T} : ∀ {t : T}, IsSub u t → u ≠ .empty
  | .leaf _ _, h => by rw [h]; exact fun e => nomatch e
  | .node l r, h => by
    rcases h with h | h | h
    · rw [h]; exact fun e => nomatch e
    · exact IsSub.ne_empty h
    · exact IsSub.ne_empty h

theorem IsSub.refl {u : T} (h : u ≠ .empty) : IsSub u u := by
  cases u with
  | empty => exact absurd rfl h
  | leaf k v => rfl
  | node l r => exact .inl rfl

theorem IsSub.trans {u v : T} : ∀ {t : T}, IsSub u v → IsSub v t → IsSub u t
  | .leaf _ _, h1, h2 => by rw [h2] at h1; exact h1
  | .node l r, h1, h2 => by
    rcases h2 with h2 | h2 | h2
    · rw [h2] at h1; exact h1
    · exact .inr (.inl (IsSub.trans h1 h2))
    · exact .inr (.inr (IsSub.trans h1 h2))

/-- **the hash assumption, relative to a class `U` of trees**: `H` has 32-byte output, and on the trees of `U`
the tree hash is injective and never the zero sum. Unlike `HashOK` (injective on ALL 65-byte inputs, which no
function with 32-byte output is) this is satisfiable: for the finitely many trees that occur in a concrete
history it follows from the absence of a collision among the finitely many tagged inputs actually hashed
(`Lemmas/SparseCollision.lean`: `hashOn_of_noCollision`). `HashOK H` gives it for `U = everything`
(`HashOK.toOn`). -/
structure HashOn (H : Bytes → Bytes) (U : T → Prop) : Prop where
  len : ∀ x, (H x).length = keyBytes
  inj : ∀ u v : T, U u → U v →
    (u.hash (hashes32 H len)).val = (v.hash (hashes32 H len)).val → u = v
  nz : ∀ u : T, U u → u ≠ .empty → (u.hash (hashes32 H len)).val ≠ zeroSum

theorem _root_.FuelVerif.SmtBytes.HashOK.toOn {H : Bytes → Bytes} (hok : HashOK H) : HashOn H (fun _ => True) where
  len := hok.len
  inj := fun u v _ _ h => hash_injective (hashes32 H hok.len) (collisionFree_bytes H hok) u v (Subtype.ext h)
  nz := by
    have hcf := collisionFree_bytes H hok
    intro u _ h e
    cases u with
    | empty => exact h rfl
    | leaf k v => exact hcf.leaf_ne_zero k v (Subtype.ext e)
    | node l r => exact hcf.node_ne_zero (l.hash _) (r.hash _) (Subtype.ext e)

variable (H : Bytes → Bytes) {U : T → Prop} (hok : HashOn H U)

/-- the hash constructors at 32-byte types -/
abbrev PP : Hashes Key32 Hash32 Hash32 := hashes32 H hok.len

/-- hash of a subtree as bytes -/
def hb (t : T) : Bytes := (t.hash (PP H hok)).val

theorem hb_len (t : T) : (hb H hok t).length = keyBytes := (t.hash (PP H hok)).property

theorem hb_empty : hb H hok .empty = zeroSum := rfl
theorem hb_leaf (k : Key32) (v : Hash32) : hb H hok (.leaf k v) = calculateLeafHash H k.val v.val := rfl
theorem hb_node (l r : T) :
    hb H hok (.node l r) = calculateNodeHash H (hb H hok l) (hb H hok r) := rfl

/-- the `Node` value of the top node of subtree `t` at depth `d` -/
def nodeOf (d : Nat) : T → Node
  | .empty => .placeholder
  | .leaf k v => .node (calculateLeafHash H k.val v.val) 0 .leaf k.val v.val
  | .node l r => .node (calculateNodeHash H (hb H hok l) (hb H hok r)) (maxHeight - d) .node
      (hb H hok l) (hb H hok r)

theorem nodeOf_hash (d : Nat) (t : T) : (nodeOf H hok d t).hash = hb H hok t := by
  cases t <;> rfl

theorem nodeOf_wf (d : Nat) (t : T) : (nodeOf H hok d t).Wf H := by
  cases t <;> simp [nodeOf, Node.Wf, calculateLeafHash, calculateNodeHash]

/-- a non-empty tree of `U` never hashes to the zero sum -/
theorem hb_ne_zero {t : T} (hU : U t) (h : t ≠ .empty) : hb H hok t ≠ zeroSum := hok.nz t hU h

variable {σ : Type} (S : StoreOps σ)

/-- every node of `t` (at depth `d`) is in the store under its hash -/
def Stored (st : σ) : Nat → T → Prop
  | _, .empty => True
  | d, .leaf k v => S.get st (hb H hok (.leaf k v)) = some (nodeOf H hok d (.leaf k v)).toPrim
  | d, .node l r => S.get st (hb H hok (.node l r)) = some (nodeOf H hok d (.node l r)).toPrim
      ∧ Stored st (d + 1) l ∧ Stored st (d + 1) r

theorem Stored.top {st : σ} {d : Nat} {t : T} (h : Stored H hok S st d t) (hne : t ≠ .empty) :
    S.get st (hb H hok t) = some (nodeOf H hok d t).toPrim := by
  cases t with
  | empty => exact absurd rfl hne
  | leaf k v => exact h
  | node l r => exact h.1

/-- the state represents the structural tree -/
structure Rep (s : SMT σ) (t : T) : Prop where
  canon : Canon bit32 width 0 t
  root : s.root = nodeOf H hok 0 t
  stored : Stored H hok S s.storage 0 t
  /-- every non-empty subtree of `t` is in the class on which the hash is collision-free -/
  sub : ∀ u, IsSub u t → U u

/-! ### `child` -/

theorem child_rep {st : σ} {d : Nat} {l r : T} (hs : Stored H hok S st d (.node l r))
    (hU : ∀ u, IsSub u (.node l r) → U u) (right : Bool) :
    child H S st (nodeOf H hok d (.node l r)) right =
      .ok (nodeOf H hok (d + 1) (if right then r else l)) := by
  have hgen : ∀ c : T, (c ≠ .empty → U c) → Stored H hok S st (d + 1) c →
      (if hb H hok c = zeroSum then Except.ok Node.placeholder
       else match S.get st (hb H hok c) with
        | none => Except.error Err.ChildError
        | some p => match Node.ofPrim H p with
          | .ok c => .ok c
          | .error _ => .error .ChildError) = (.ok (nodeOf H hok (d + 1) c) : Except Err Node) := by
    intro c hUc hc
    by_cases he : c = .empty
    · subst he; simp [hb_empty, nodeOf]
    · simp only [hb_ne_zero H hok (hUc he) he, ↓reduceIte, Stored.top H hok S hc he]
      rw [Node.ofPrim_toPrim H (nodeOf_wf H hok _ _)]
      cases c with
      | empty => exact absurd rfl he
      | leaf k v => simp [nodeOf]
      | node a b => simp [nodeOf]
  have hl : (nodeOf H hok d (Tree.node l r)).isLeaf = false := by
    simp [nodeOf, Node.isLeaf, Node.pfx, Node.isPlaceholder]
  have eHi : (nodeOf H hok d (Tree.node l r)).bytesHi = hb H hok r := rfl
  have eLo : (nodeOf H hok d (Tree.node l r)).bytesLo = hb H hok l := rfl
  unfold child
  cases right with
  | true =>
    simp only [hl, Bool.false_eq_true, ↓reduceIte, eHi]
    exact hgen r (fun he => hU r (.inr (.inr (IsSub.refl he)))) hs.2.2
  | false =>
    simp only [hl, Bool.false_eq_true, ↓reduceIte, eLo]
    exact hgen l (fun he => hU l (.inr (.inl (IsSub.refl he)))) hs.2.1

/-! ### `path_set` -/

/-- the items the path iterator yields for the subtree `t` at depth `d` (root first) -/
def pathItems (k : Key32) : Nat → T → Bytes → List (Node × Bytes)
  | d, .node l r, side =>
    (nodeOf H hok d (.node l r), side) ::
      (if bit32 k d then pathItems k (d + 1) r (hb H hok l) else pathItems k (d + 1) l (hb H hok r))
  | d, t, side => [(nodeOf H hok d t, side)]

theorem nodeOf_isNode_node (d : Nat) (l r : T) : (nodeOf H hok d (.node l r)).isNode = true := by
  simp [nodeOf, Node.isNode, Node.pfx]

theorem nodeOf_isNode_leaf (d : Nat) (k : Key32) (v : Hash32) :
    (nodeOf H hok d (.leaf k v)).isNode = false := by
  simp [nodeOf, Node.isNode, Node.pfx]

theorem nodeOf_isNode_empty (d : Nat) : (nodeOf H hok d .empty).isNode = false := by
  simp [nodeOf, Node.isNode, Node.pfx]

theorem pathIter_rep (k : Key32) {st : σ} :
    ∀ (t : T) (d fuel : Nat) (side : Bytes), Canon bit32 width d t → Stored H hok S st d t →
      (∀ u, IsSub u t → U u) → d ≤ width → d + fuel > width →
      pathIter H S st k.val fuel (nodeOf H hok d t) side d = .ok (pathItems H hok k d t side)
  | .empty, d, fuel, side, _, _, _, hd, hf => by
    cases fuel with
    | zero => omega
    | succ f => simp [pathIter, nodeOf_isNode_empty, pathItems]
  | .leaf k' v', d, fuel, side, _, _, _, hd, hf => by
    cases fuel with
    | zero => omega
    | succ f => simp [pathIter, nodeOf_isNode_leaf, pathItems]
  | .node l r, d, fuel, side, hc, hs, hU, hd, hf => by
    obtain ⟨hdn, hl, hr, hsz, hcl, hcr⟩ := hc
    cases fuel with
    | zero => omega
    | succ f =>
      unfold pathIter
      simp only [nodeOf_isNode_node, ↓reduceIte]
      have hk : d < 8 * k.val.length := by
        rw [k.property]; have : width = 8 * keyBytes := by decide
        omega
      rw [getInstruction_some k.val d hk]
      simp only [child_rep H hok S hs hU]
      have eHi : (nodeOf H hok d (Tree.node l r)).bytesHi = hb H hok r := rfl
      have eLo : (nodeOf H hok d (Tree.node l r)).bytesLo = hb H hok l := rfl
      unfold pathItems
      cases hb' : bitOf k.val d with
      | true =>
        have hb2 : bit32 k d = true := hb'
        simp only [↓reduceIte, eLo, hb2]
        rw [pathIter_rep k r (d + 1) f _ hcr hs.2.2 (fun u hu => hU u (.inr (.inr hu))) (by omega) (by omega)]
      | false =>
        have hb2 : bit32 k d = false := hb'
        simp only [Bool.false_eq_true, ↓reduceIte, eHi, hb2]
        rw [pathIter_rep k l (d + 1) f _ hcl hs.2.1 (fun u hu => hU u (.inr (.inl hu))) (by omega) (by omega)]

/-- the path nodes leaf-to-root of the subtree `t` at depth `d` along `k` (terminal node first, the
subtree's top node last) -/
def upNodes (k : Key32) : Nat → T → List Node
  | d, .node l r =>
    (if bit32 k d then upNodes k (d + 1) r else upNodes k (d + 1) l) ++ [nodeOf H hok d (.node l r)]
  | d, t => [nodeOf H hok d t]

/-- the side hashes leaf-to-root below the top of the subtree -/
def upSides (k : Key32) : Nat → T → List Bytes
  | d, .node l r =>
    if bit32 k d then upSides k (d + 1) r ++ [hb H hok l] else upSides k (d + 1) l ++ [hb H hok r]
  | _, _ => []

theorem pathItems_fst (k : Key32) :
    ∀ (t : T) (d : Nat) (side : Bytes),
      ((pathItems H hok k d t side).map Prod.fst).reverse = upNodes H hok k d t
  | .empty, _, _ => rfl
  | .leaf _ _, _, _ => rfl
  | .node l r, d, side => by
    unfold pathItems upNodes
    by_cases hb' : bit32 k d = true
    · simp only [hb', ↓reduceIte, List.map_cons, List.reverse_cons]
      rw [pathItems_fst k r (d + 1)]
    · simp only [hb', Bool.false_eq_true, ↓reduceIte, List.map_cons, List.reverse_cons]
      rw [pathItems_fst k l (d + 1)]

theorem pathItems_snd (k : Key32) :
    ∀ (t : T) (d : Nat) (side : Bytes),
      ((pathItems H hok k d t side).map Prod.snd).reverse = upSides H hok k d t ++ [side]
  | .empty, _, _ => rfl
  | .leaf _ _, _, _ => rfl
  | .node l r, d, side => by
    unfold pathItems upSides
    by_cases hb' : bit32 k d = true
    · simp only [hb', ↓reduceIte, List.map_cons, List.reverse_cons]
      rw [pathItems_snd k r (d + 1)]
    · simp only [hb', Bool.false_eq_true, ↓reduceIte, List.map_cons, List.reverse_cons]
      rw [pathItems_snd k l (d + 1)]

/-- **`path_set` on a represented tree** returns the structural path -/
theorem pathSet_rep {s : SMT σ} {t : T} (hr : Rep H hok S s t) (k : Key32) :
    SmtStore.pathSet H S s k.val = .ok (upNodes H hok k 0 t, upSides H hok k 0 t) := by
  obtain ⟨hc, hroot, hst, hU⟩ := hr
  unfold SmtStore.pathSet
  rw [hroot]
  have hw : width = maxHeight := rfl
  cases t with
  | empty =>
    simp [nodeOf, Node.height, pathIter, Node.isNode, Node.pfx, upNodes, upSides]
  | leaf k' v' =>
    simp [nodeOf, Node.height, pathIter, Node.isNode, Node.pfx, upNodes, upSides]
  | node l r =>
    have hh : (nodeOf H hok 0 (Tree.node l r)).height = maxHeight := by simp [nodeOf, Node.height]
    simp only [hh, Nat.lt_irrefl, ↓reduceIte, Nat.sub_self, gt_iff_lt]
    rw [pathIter_rep H hok S k (.node l r) 0 (maxHeight + 1) _ hc hst hU (Nat.zero_le _) (by rw [hw]; omega)]
    simp only [pathItems_fst, pathItems_snd, List.dropLast_concat]

theorem upSides_eq (k : Key32) :
    ∀ (t : T) (d : Nat),
      upSides H hok k d t = (Smt.pathSet bit32 (PP H hok) d k t).1.map Subtype.val
  | .empty, _ => rfl
  | .leaf _ _, _ => rfl
  | .node l r, d => by
    unfold upSides Smt.pathSet
    by_cases hb' : bit32 k d = true
    · simp only [hb', ↓reduceIte]
      rw [upSides_eq k r (d + 1), List.map_append]; rfl
    · simp only [hb', Bool.false_eq_true, ↓reduceIte]
      rw [upSides_eq k l (d + 1), List.map_append]; rfl

theorem upNodes_head (k : Key32) :
    ∀ (t : T) (d : Nat), ∃ d' rest,
      upNodes H hok k d t = nodeOf H hok d' (Smt.pathSet bit32 (PP H hok) d k t).2 :: rest
  | .empty, d => ⟨d, [], rfl⟩
  | .leaf _ _, d => ⟨d, [], rfl⟩
  | .node l r, d => by
    unfold upNodes Smt.pathSet
    by_cases hb' : bit32 k d = true
    · simp only [hb', ↓reduceIte]
      obtain ⟨d', rest, h⟩ := upNodes_head k r (d + 1)
      exact ⟨d', rest ++ [_], by rw [h]; rfl⟩
    · simp only [hb', Bool.false_eq_true, ↓reduceIte]
      obtain ⟨d', rest, h⟩ := upNodes_head k l (d + 1)
      exact ⟨d', rest ++ [_], by rw [h]; rfl⟩

/-- a structural proof in the byte-level proof type -/
def proofToBytes : Smt.Proof Key32 Hash32 Hash32 → SmtStore.Proof
  | .inclusion s => .inclusion (s.map Subtype.val)
  | .exclusion s .placeholder => .exclusion (s.map Subtype.val) .placeholder
  | .exclusion s (.leaf k v) => .exclusion (s.map Subtype.val) (.leaf k.val v.val)

/-- **`generate_proof` on a represented tree** is the structural `generateProof` -/
theorem generateProof_rep {s : SMT σ} {t : T} (hr : Rep H hok S s t) (k : Key32) :
    SmtStore.generateProof H S s k.val =
      .ok (proofToBytes (Smt.generateProof bit32 (PP H hok) k t)) := by
  unfold SmtStore.generateProof
  rw [pathSet_rep H hok S hr k]
  obtain ⟨d', rest, hh⟩ := upNodes_head H hok k t 0
  simp only [hh, upSides_eq]
  unfold Smt.generateProof
  rcases pathSet_terminal bit32 (PP H hok) k 0 t with ⟨h1, _⟩ | ⟨k', v', h1, _⟩
  · rw [show Smt.pathSet bit32 (PP H hok) 0 k t =
      ((Smt.pathSet bit32 (PP H hok) 0 k t).1, (Smt.pathSet bit32 (PP H hok) 0 k t).2) from rfl, h1]
    simp [nodeOf, Node.isPlaceholder, proofToBytes]
  · rw [show Smt.pathSet bit32 (PP H hok) 0 k t =
      ((Smt.pathSet bit32 (PP H hok) 0 k t).1, (Smt.pathSet bit32 (PP H hok) 0 k t).2) from rfl, h1]
    have hne : (nodeOf H hok d' (Tree.leaf k' v')).isPlaceholder = false := by
      simp [nodeOf, Node.isPlaceholder]
    have hk : (nodeOf H hok d' (Tree.leaf k' v')).leafKey = k'.val := rfl
    have hd : (nodeOf H hok d' (Tree.leaf k' v')).leafData = v'.val := rfl
    simp only [hne, hk, hd, Bool.not_false, Bool.true_and, Bool.false_eq_true, ↓reduceIte]
    by_cases e : k' = k
    · subst e; simp [proofToBytes]
    · have e' : k'.val ≠ k.val := fun h => e (Subtype.ext h)
      simp [e, e', proofToBytes]

/-- a represented state has its root persisted in the store (C13) -/
theorem rep_rootPersisted {s : SMT σ} {t : T} (hr : Rep H hok S s t) : RootPersisted H S s := by
  obtain ⟨_, hroot, hst, hU⟩ := hr
  by_cases he : t = .empty
  · subst he; exact .inl hroot
  · right
    rw [hroot]
    exact ⟨nodeOf_wf H hok 0 t, by rw [nodeOf_hash]; exact hb_ne_zero H hok (hU t (IsSub.refl he)) he,
      by rw [nodeOf_hash]; exact Stored.top H hok S hst he⟩

/-! ### subtrees, hashes of subtrees, and the store -/

/-- number of constructors -/
def nodes : T → Nat
  | .empty => 1
  | .leaf _ _ => 1
  | .node l r => nodes l + nodes r + 1

/-- every leaf (key and value) satisfies `p` -/
def AllKV (p : Key32 → Hash32 → Prop) : T → Prop
  | .empty => True
  | .leaf k v => p k v
  | .node l r => AllKV p l ∧ AllKV p r

theorem IsSub.nodes_le {u : T} : ∀ {t : T}, IsSub u t → nodes u ≤ nodes t
  | .leaf _ _, h => by rw [h]; exact Nat.le_refl _
  | .node l r, h => by
    rcases h with h | h | h
    · rw [h]; exact Nat.le_refl _
    · have := IsSub.nodes_le h; simp only [nodes]; omega
    · have := IsSub.nodes_le h; simp only [nodes]; omega

theorem IsSub.all {u : T} {p : Key32 → Prop} : ∀ {t : T}, IsSub u t → t.All p → u.All p
  | .leaf _ _, h, hp => by rw [h]; exact hp
  | .node l r, h, hp => by
    rcases h with h | h | h
    · rw [h]; exact hp
    · exact IsSub.all h hp.1
    · exact IsSub.all h hp.2

theorem IsSub.allKV {u : T} {p : Key32 → Hash32 → Prop} : ∀ {t : T}, IsSub u t → AllKV p t → AllKV p u
  | .leaf _ _, h, hp => by rw [h]; exact hp
  | .node l r, h, hp => by
    rcases h with h | h | h
    · rw [h]; exact hp
    · exact IsSub.allKV h hp.1
    · exact IsSub.allKV h hp.2

theorem IsSub.size_pos {u : T} : ∀ {t : T} {d : Nat}, IsSub u t → Canon bit32 width d t → 1 ≤ u.size
  | .leaf _ _, _, h, _ => by rw [h]; simp [Tree.size]
  | .node l r, d, h, hc => by
    rcases h with h | h | h
    · rw [h]; have := hc.2.2.2.1; simp only [Tree.size]; omega
    · exact IsSub.size_pos h hc.2.2.2.2.1
    · exact IsSub.size_pos h hc.2.2.2.2.2

/-- a tree with at least one leaf whose keys all satisfy `p` and all satisfy `q` yields a key with both -/
theorem exists_of_all {p q : Key32 → Prop} : ∀ {t : T}, 1 ≤ t.size → t.All p → t.All q → ∃ k, p k ∧ q k
  | .empty, h, _, _ => by simp [Tree.size] at h
  | .leaf k _, _, hp, hq => ⟨k, hp, hq⟩
  | .node l r, h, hp, hq => by
    simp only [Tree.size] at h
    by_cases hl : 1 ≤ l.size
    · exact exists_of_all hl hp.1 hq.1
    · exact exists_of_all (by omega) hp.2 hq.2

/-- the hashes of all non-empty subtrees -/
def hashesOf : T → List Bytes
  | .empty => []
  | .leaf k v => [hb H hok (.leaf k v)]
  | .node l r => hb H hok (.node l r) :: (hashesOf l ++ hashesOf r)

theorem hb_injective {u v : T} (hu : U u) (hv : U v) (h : hb H hok u = hb H hok v) : u = v :=
  hok.inj u v hu hv h

/-- injectivity for "placeholder or subtree of a tree whose subtrees are in `U`" -/
theorem hb_inj_sub {t1 t2 u v : T} (h1 : ∀ x, IsSub x t1 → U x) (h2 : ∀ x, IsSub x t2 → U x)
    (hu : u = .empty ∨ IsSub u t1) (hv : v = .empty ∨ IsSub v t2) (h : hb H hok u = hb H hok v) : u = v := by
  rcases hu with eu | hu <;> rcases hv with ev | hv
  · rw [eu, ev]
  · subst eu
    exact absurd h.symm (hb_ne_zero H hok (h2 v hv) (IsSub.ne_empty hv))
  · subst ev
    exact absurd h (hb_ne_zero H hok (h1 u hu) (IsSub.ne_empty hu))
  · exact hb_injective H hok (h1 u hu) (h2 v hv) h

theorem child_left_sub (l r : T) : l = .empty ∨ IsSub l (.node l r) := by
  by_cases e : l = .empty
  · exact .inl e
  · exact .inr (.inr (.inl (IsSub.refl e)))

theorem child_right_sub (l r : T) : r = .empty ∨ IsSub r (.node l r) := by
  by_cases e : r = .empty
  · exact .inl e
  · exact .inr (.inr (.inr (IsSub.refl e)))

theorem mem_hashesOf {h : Bytes} : ∀ {t : T}, h ∈ hashesOf H hok t → ∃ u, IsSub u t ∧ hb H hok u = h
  | .empty, hm => by simp [hashesOf] at hm
  | .leaf k v, hm => by
    simp only [hashesOf, List.mem_singleton] at hm
    exact ⟨.leaf k v, rfl, hm.symm⟩
  | .node l r, hm => by
    simp only [hashesOf, List.mem_cons, List.mem_append] at hm
    rcases hm with hm | hm | hm
    · exact ⟨.node l r, .inl rfl, hm.symm⟩
    · obtain ⟨u, hu, e⟩ := mem_hashesOf hm; exact ⟨u, .inr (.inl hu), e⟩
    · obtain ⟨u, hu, e⟩ := mem_hashesOf hm; exact ⟨u, .inr (.inr hu), e⟩

/-- `hb x` is not the hash of a subtree of `t` when `x` is not a subtree of `t` -/
theorem not_mem_hashesOf {x t : T} (hx : U x) (ht : ∀ u, IsSub u t → U u) (h : ¬ IsSub x t) :
    hb H hok x ∉ hashesOf H hok t := by
  intro hm
  obtain ⟨u, hu, e⟩ := mem_hashesOf H hok hm
  rw [hb_injective H hok (ht u hu) hx e] at hu
  exact h hu

variable (laws : StoreLaws S)
include laws

theorem stored_insert_other {st : σ} {h : Bytes} {p : Prim} :
    ∀ {t : T} {d : Nat}, Stored H hok S st d t → h ∉ hashesOf H hok t →
      Stored H hok S (S.insert st h p) d t
  | .empty, _, _, _ => trivial
  | .leaf k v, d, hs, hn => by
    simp only [hashesOf, List.mem_singleton] at hn
    simp only [Stored, laws.get_insert]
    rw [if_neg hn]; exact hs
  | .node l r, d, hs, hn => by
    simp only [hashesOf, List.mem_cons, List.mem_append, not_or] at hn
    refine ⟨?_, stored_insert_other hs.2.1 hn.2.1, stored_insert_other hs.2.2 hn.2.2⟩
    rw [laws.get_insert, if_neg hn.1]; exact hs.1

theorem stored_remove_other {st : σ} {h : Bytes} :
    ∀ {t : T} {d : Nat}, Stored H hok S st d t → h ∉ hashesOf H hok t →
      Stored H hok S (S.remove st h) d t
  | .empty, _, _, _ => trivial
  | .leaf k v, d, hs, hn => by
    simp only [hashesOf, List.mem_singleton] at hn
    simp only [Stored, laws.get_remove]
    rw [if_neg hn]; exact hs
  | .node l r, d, hs, hn => by
    simp only [hashesOf, List.mem_cons, List.mem_append, not_or] at hn
    refine ⟨?_, stored_remove_other hs.2.1 hn.2.1, stored_remove_other hs.2.2 hn.2.2⟩
    rw [laws.get_remove, if_neg hn.1]; exact hs.1

omit laws in
/-- a store that agrees with `st` on all hashes of `t` stores `t` as well -/
theorem stored_congr {st st' : σ} :
    ∀ {t : T} {d : Nat}, Stored H hok S st d t →
      (∀ h, h ∈ hashesOf H hok t → S.get st' h = S.get st h) → Stored H hok S st' d t
  | .empty, _, _, _ => trivial
  | .leaf k v, d, hs, hg => by
    simp only [Stored]
    rw [hg _ (by simp [hashesOf])]; exact hs
  | .node l r, d, hs, hg => by
    refine ⟨?_, stored_congr hs.2.1 (fun h hm => hg h (by simp [hashesOf, hm])),
      stored_congr hs.2.2 (fun h hm => hg h (by simp [hashesOf, hm]))⟩
    rw [hg _ (by simp [hashesOf])]; exact hs.1

end FuelVerif.SmtRefine
