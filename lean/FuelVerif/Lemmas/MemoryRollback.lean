/-
Helper lemmas for C23 rollback: `get_changes` produces slices of the desired array that cover every
differing index; applying them turns the latest array into the desired one; `collect_rollback_data` +
`rollback` refine "become the snapshot".
-/
import FuelVerif.Lemmas.Memory
namespace FuelVerif.Memory

theorem slice_getD (f : Buf) (s e j : Nat) (h : j < e - s) : (slice f s e).getD j 0 = f (s + j) := by
  unfold slice
  simp [List.getD, h]

/-- the change is the slice `[s, s+c)` of the desired array -/
def IsRun (desired : Buf) (offset : Nat) (ch : SliceChange) (s c : Nat) : Prop :=
  ch = mkChange desired offset (s, c)

/-- index `j` lies in some run of the list -/
def Covered (desired : Buf) (offset : Nat) (L : List SliceChange) (j : Nat) : Prop :=
  ∃ ch ∈ L, ∃ s c, IsRun desired offset ch s c ∧ s ≤ j ∧ j < s + c

/-- what the loop of `get_changes` guarantees from index `i` with `k` elements left and open run `range` -/
theorem getChangesGo_spec (latest desired : Buf) (offset : Nat) :
    ∀ (k i : Nat) (range : Option (Nat × Nat)),
      (∀ s c, range = some (s, c) → s + c = i) →
      (∀ ch ∈ getChangesGo latest desired offset k i range, ∃ s c, IsRun desired offset ch s c ∧ s + c ≤ i + k) ∧
      (∀ j, j < i + k →
          ((i ≤ j ∧ latest j ≠ desired j) ∨ (∃ s c, range = some (s, c) ∧ s ≤ j ∧ j < i)) →
          Covered desired offset (getChangesGo latest desired offset k i range) j) := by
  intro k
  induction k with
  | zero =>
    intro i range hr
    cases range with
    | none =>
      simp only [getChangesGo, List.not_mem_nil, false_implies, implies_true, true_and]
      intro j h1 h2
      rcases h2 with h2 | ⟨s, c, h, _⟩
      · omega
      · cases h
    | some r =>
      obtain ⟨s, c⟩ := r
      have := hr s c rfl
      simp only [getChangesGo, List.mem_singleton]
      refine ⟨?_, ?_⟩
      · intro ch hch
        exact ⟨s, c, hch, by omega⟩
      · intro j h1 h2
        rcases h2 with h2 | ⟨s', c', h, h3, h4⟩
        · omega
        · cases h
          exact ⟨_, List.mem_singleton.mpr rfl, s, c, rfl, h3, by omega⟩
  | succ k ih =>
    intro i range hr
    unfold getChangesGo
    by_cases hd : latest i ≠ desired i
    · simp only [hd, if_true, ne_eq, not_false_eq_true]
      have key : ∀ r' : Option (Nat × Nat), (∀ s c, r' = some (s, c) → s + c = i + 1) →
          (∀ j, (∃ s c, range = some (s, c) ∧ s ≤ j ∧ j < i) ∨ j = i → ∃ s c, r' = some (s, c) ∧ s ≤ j ∧ j < i + 1) →
          (∀ ch ∈ getChangesGo latest desired offset k (i + 1) r', ∃ s c, IsRun desired offset ch s c ∧ s + c ≤ i + (k + 1)) ∧
          (∀ j, j < i + (k + 1) →
            ((i ≤ j ∧ latest j ≠ desired j) ∨ (∃ s c, range = some (s, c) ∧ s ≤ j ∧ j < i)) →
            Covered desired offset (getChangesGo latest desired offset k (i + 1) r') j) := by
        intro r' hr' hopen
        obtain ⟨hA, hB⟩ := ih (i + 1) r' hr'
        refine ⟨?_, ?_⟩
        · intro ch hch
          obtain ⟨s, c, h1, h2⟩ := hA ch hch
          exact ⟨s, c, h1, by omega⟩
        · intro j h1 h2
          apply hB j (by omega)
          rcases h2 with ⟨h2, h3⟩ | h2
          · by_cases hj : j = i
            · exact Or.inr (hopen j (Or.inr hj))
            · exact Or.inl ⟨by omega, h3⟩
          · exact Or.inr (hopen j (Or.inl h2))
      cases range with
      | none =>
        apply key (some (i, 1))
        · intro s c h; cases h; rfl
        · intro j hj
          rcases hj with ⟨s, c, h, _⟩ | hj
          · cases h
          · exact ⟨i, 1, rfl, by omega, by omega⟩
      | some r =>
        obtain ⟨s, c⟩ := r
        have := hr s c rfl
        apply key (some (s, c + 1))
        · intro s' c' h; cases h; omega
        · intro j hj
          rcases hj with ⟨s', c', h, h1, h2⟩ | hj
          · cases h
            exact ⟨s, c + 1, rfl, h1, by omega⟩
          · exact ⟨s, c + 1, rfl, by omega, by omega⟩
    · simp only [hd, if_false]
      have hd' : latest i = desired i := by simpa using hd
      cases range with
      | none =>
        dsimp only
        obtain ⟨hA, hB⟩ := ih (i + 1) none (by intro s c h; cases h)
        refine ⟨?_, ?_⟩
        · intro ch hch
          obtain ⟨s, c, h1, h2⟩ := hA ch hch
          exact ⟨s, c, h1, by omega⟩
        · intro j h1 h2
          apply hB j (by omega)
          rcases h2 with ⟨h2, h3⟩ | ⟨s, c, h, _⟩
          · have : j ≠ i := by intro hc; subst hc; exact h3 hd'
            exact Or.inl ⟨by omega, h3⟩
          · cases h
      | some r =>
        obtain ⟨s, c⟩ := r
        have hsc := hr s c rfl
        dsimp only
        obtain ⟨hA, hB⟩ := ih (i + 1) none (by intro s c h; cases h)
        refine ⟨?_, ?_⟩
        · intro ch hch
          rcases List.mem_cons.mp hch with hch | hch
          · exact ⟨s, c, hch, by omega⟩
          · obtain ⟨s', c', h1, h2⟩ := hA ch hch
            exact ⟨s', c', h1, by omega⟩
        · intro j h1 h2
          rcases h2 with ⟨h2, h3⟩ | ⟨s', c', h, h4, h5⟩
          · have : j ≠ i := by intro hc; subst hc; exact h3 hd'
            obtain ⟨ch, hm, hrest⟩ := hB j (by omega) (Or.inl ⟨by omega, h3⟩)
            exact ⟨ch, List.mem_cons_of_mem _ hm, hrest⟩
          · cases h
            exact ⟨_, List.mem_cons_self, s, c, rfl, h4, by omega⟩

/-- `get_changes`: every change is a slice of the desired array inside `[0,n)`, every differing index is covered -/
theorem getChanges_spec (latest desired : Buf) (offset n : Nat) :
    (∀ ch ∈ getChanges latest desired offset n, ∃ s c, IsRun desired offset ch s c ∧ s + c ≤ n) ∧
    (∀ j, j < n → latest j ≠ desired j → Covered desired offset (getChanges latest desired offset n) j) := by
  obtain ⟨hA, hB⟩ := getChangesGo_spec latest desired offset n 0 none (by intro s c h; cases h)
  refine ⟨?_, ?_⟩
  · intro ch hch
    obtain ⟨s, c, h1, h2⟩ := hA ch hch
    exact ⟨s, c, h1, by omega⟩
  · intro j h1 h2
    exact hB j (by omega) (Or.inl ⟨by omega, h2⟩)

/-- applying a list of runs (slices of `desired`, all inside `[0,n)`) at `base = offset - off0`: never panics when
`base + n ≤ len`; a covered position gets the desired byte, the others keep theirs -/
theorem applyChanges_runs (desired : Buf) (offset off0 n len : Nat) (hoff : off0 ≤ offset) (hlen : offset - off0 + n ≤ len) :
    ∀ (L : List SliceChange) (buf : Buf),
      (∀ ch ∈ L, ∃ s c, IsRun desired offset ch s c ∧ s + c ≤ n) →
      ∃ buf', applyChanges len off0 buf L = .ok buf' ∧
        ∀ p, (Covered desired offset L (p - (offset - off0)) ∧ offset - off0 ≤ p → buf' p = desired (p - (offset - off0))) ∧
             (¬ (Covered desired offset L (p - (offset - off0)) ∧ offset - off0 ≤ p) → buf' p = buf p) := by
  intro L
  induction L with
  | nil =>
    intro buf _
    refine ⟨buf, rfl, ?_⟩
    intro p
    refine ⟨?_, fun _ => rfl⟩
    rintro ⟨⟨ch, hm, _⟩, _⟩
    cases hm
  | cons ch rest ih =>
    intro buf hall
    obtain ⟨s, c, hrun, hsc⟩ := hall ch List.mem_cons_self
    have hgs : ch.globalStart = offset + s := by rw [hrun]; rfl
    have hdl : ch.data.length = c := by rw [hrun]; simp [mkChange, slice_length]
    unfold applyChanges
    have g1 : ¬ ch.globalStart < off0 := by omega
    have g2 : ¬ ch.globalStart - off0 + ch.data.length > len := by omega
    simp only [g1, g2, if_false]
    obtain ⟨buf', hok, hspec⟩ := ih (putAt buf (ch.globalStart - off0) ch.data.length (fun j => ch.data.getD j 0))
      (fun ch' hm => hall ch' (List.mem_cons_of_mem _ hm))
    refine ⟨buf', hok, ?_⟩
    intro p
    have hhead : ∀ q, s ≤ q - (offset - off0) → q - (offset - off0) < s + c → offset - off0 ≤ q →
        putAt buf (ch.globalStart - off0) ch.data.length (fun j => ch.data.getD j 0) q = desired (q - (offset - off0)) := by
      intro q h1 h2 h3
      unfold putAt
      rw [if_pos (by omega)]
      rw [hrun]
      simp only [mkChange]
      rw [slice_getD _ _ _ _ (by omega)]
      congr 1
      omega
    have hhead' : ∀ q, ¬ (s ≤ q - (offset - off0) ∧ q - (offset - off0) < s + c ∧ offset - off0 ≤ q) →
        putAt buf (ch.globalStart - off0) ch.data.length (fun j => ch.data.getD j 0) q = buf q := by
      intro q h
      unfold putAt
      rw [if_neg (by omega)]
    obtain ⟨hs1, hs2⟩ := hspec p
    by_cases hc : Covered desired offset rest (p - (offset - off0)) ∧ offset - off0 ≤ p
    · refine ⟨fun _ => hs1 hc, ?_⟩
      intro hn
      exfalso
      apply hn
      obtain ⟨⟨ch', hm, hr⟩, hp⟩ := hc
      exact ⟨⟨ch', List.mem_cons_of_mem _ hm, hr⟩, hp⟩
    · rw [hs2 hc]
      refine ⟨?_, ?_⟩
      · rintro ⟨⟨ch', hm, s', c', hr', h1, h2⟩, hp⟩
        rcases List.mem_cons.mp hm with hm | hm
        · subst hm
          have : mkChange desired offset (s', c') = mkChange desired offset (s, c) := by rw [← hr', ← hrun]
          have e1 : s' = s := by
            have := congrArg SliceChange.globalStart this
            simp only [mkChange] at this
            omega
          have e2 : c' = c := by
            have := congrArg (fun x => x.data.length) this
            simp only [mkChange, slice_length] at this
            omega
          subst e1 e2
          exact hhead p h1 h2 hp
        · exact absurd ⟨⟨ch', hm, s', c', hr', h1, h2⟩, hp⟩ hc
      · intro hn
        apply hhead'
        intro ⟨h1, h2, h3⟩
        exact hn ⟨⟨ch, List.mem_cons_self, s, c, hrun, h1, h2⟩, h3⟩

/-- `get_changes` followed by applying the changes: the window `[base, base+n)` becomes `desired`, the rest is untouched -/
theorem applyChanges_getChanges (latest desired buf : Buf) (offset off0 n len : Nat)
    (hoff : off0 ≤ offset) (hlen : offset - off0 + n ≤ len)
    (hbuf : ∀ i, i < n → buf (offset - off0 + i) = latest i) :
    ∃ buf', applyChanges len off0 buf (getChanges latest desired offset n) = .ok buf' ∧
      (∀ i, i < n → buf' (offset - off0 + i) = desired i) ∧
      (∀ p, (p < offset - off0 ∨ offset - off0 + n ≤ p) → buf' p = buf p) := by
  obtain ⟨hA, hB⟩ := getChanges_spec latest desired offset n
  obtain ⟨buf', hok, hspec⟩ := applyChanges_runs desired offset off0 n len hoff hlen _ buf hA
  refine ⟨buf', hok, ?_, ?_⟩
  · intro i hi
    obtain ⟨h1, h2⟩ := hspec (offset - off0 + i)
    have e : offset - off0 + i - (offset - off0) = i := by omega
    rw [e] at h1 h2
    by_cases hc : Covered desired offset (getChanges latest desired offset n) i
    · exact h1 ⟨hc, by omega⟩
    · rw [h2 (fun h => hc h.1), hbuf i hi]
      by_cases hd : latest i = desired i
      · exact hd
      · exact absurd (hB i hi hd) hc
  · intro p hp
    obtain ⟨_, h2⟩ := hspec p
    apply h2
    rintro ⟨⟨ch, hm, s, c, hr, h3, h4⟩, h5⟩
    obtain ⟨s', c', hr', hsc⟩ := hA ch hm
    have : mkChange desired offset (s', c') = mkChange desired offset (s, c) := by rw [← hr', ← hr]
    have e1 : s' = s := by
      have := congrArg SliceChange.globalStart this
      simp only [mkChange] at this
      omega
    have e2 : c' = c := by
      have := congrArg (fun x => x.data.length) this
      simp only [mkChange, slice_length] at this
      omega
    omega

theorem applyChanges_append (len off : Nat) : ∀ (L1 L2 : List SliceChange) (buf : Buf),
    applyChanges len off buf (L1 ++ L2) =
      match applyChanges len off buf L1 with
      | .ok b => applyChanges len off b L2
      | .error e => .error e
  | [], L2, buf => by simp [applyChanges]
  | ch :: L1, L2, buf => by
    simp only [List.cons_append, applyChanges]
    split
    · rfl
    · split
      · rfl
      · exact applyChanges_append len off L1 L2 _

/-- the stack part of `collect_rollback_data` + `rollback` in the repaired shape: common prefix diffed against the
current stack, the missing tail diffed against zeroes; applied to the zero-extended current stack it yields the
desired stack on `[0, sp)` -/
theorem stackChanges_fixed_apply (cur desired : Buf) (curLen sp : Nat) :
    let common := min sp curLen
    let stack1 : Buf := if sp > curLen then resize0 cur curLen else cur
    ∃ st2, applyChanges sp 0 stack1
        (getChanges cur desired 0 common ++
          (if common < sp then getChanges (fun _ => 0) (fun i => desired (common + i)) common (sp - common) else [])) = .ok st2 ∧
      ∀ i, i < sp → st2 i = desired i := by
  intro common stack1
  have hc : common ≤ sp ∧ common ≤ curLen := by simp only [common]; omega
  have h1buf : ∀ i, i < common → stack1 (0 - 0 + i) = cur i := by
    intro i hi
    simp only [stack1, Nat.sub_self, Nat.zero_add]
    split
    · simp only [resize0]; rw [if_pos (by omega)]
    · rfl
  obtain ⟨sta, hsta, hsta1, hsta2⟩ := applyChanges_getChanges cur desired stack1 0 0 common sp (Nat.le_refl _) (by omega) h1buf
  rw [applyChanges_append, hsta]
  dsimp only
  by_cases hlt : common < sp
  · rw [if_pos hlt]
    have hcl : common = curLen := by simp only [common] at hlt ⊢; omega
    have h2buf : ∀ i, i < sp - common → sta (common - 0 + i) = (fun _ => (0 : UInt8)) i := by
      intro i hi
      rw [hsta2 (common - 0 + i) (Or.inr (by omega))]
      simp only [stack1]
      rw [if_pos (by omega)]
      simp only [resize0]
      rw [if_neg (by omega)]
    obtain ⟨stb, hstb, hstb1, hstb2⟩ := applyChanges_getChanges (fun _ => 0) (fun i => desired (common + i)) sta common 0 (sp - common) sp
      (Nat.zero_le _) (by omega) h2buf
    refine ⟨stb, hstb, ?_⟩
    intro i hi
    by_cases hic : i < common
    · rw [hstb2 i (Or.inl (by omega))]
      have := hsta1 i hic
      simpa using this
    · have := hstb1 (i - common) (by omega)
      rw [show common - 0 + (i - common) = i by omega, show common + (i - common) = i by omega] at this
      exact this
  · rw [if_neg hlt]
    refine ⟨sta, rfl, ?_⟩
    intro i hi
    have := hsta1 i (by omega)
    simpa using this

/-- `PartialEq for MemoryInstance` decides exactly "same extents and same accessible contents" -/
theorem eqAccessible_iff {M : Nat} {a b : Mem} {fa fb : Flat} (ha : Sim M a fa) (hb : Sim M b fb) :
    a.eqAccessible M b = true ↔ fa.sameAccessible M fb := by
  obtain ⟨⟨a1, a2, a3, a4⟩, asl, ahp, ast, ahe⟩ := ha
  obtain ⟨⟨b1, b2, b3, b4⟩, bsl, bhp, bst, bhe⟩ := hb
  unfold Mem.eqAccessible Flat.sameAccessible Mem.heapOffset
  simp only [Bool.and_eq_true, decide_eq_true_eq, List.all_eq_true, List.mem_range, beq_iff_eq]
  rw [← asl, ← ahp, ← bsl, ← bhp]
  constructor
  · rintro ⟨⟨⟨⟨h1, h2⟩, h3⟩, h4⟩, h5⟩
    refine ⟨h1, h3, ?_, ?_⟩
    · intro x hx
      rw [← ast x hx, ← bst x (by omega)]
      exact h2 x hx
    · intro x hx hx'
      rw [← ahe x hx' hx, ← bhe x (by omega) hx]
      have := h5 (x - a.hp) (by omega)
      rw [show a.hp - (M - a.heapLen) + (x - a.hp) = x - (M - a.heapLen) by omega,
          show b.hp - (M - b.heapLen) + (x - a.hp) = x - (M - b.heapLen) by omega] at this
      exact this
  · rintro ⟨h1, h3, h2, h5⟩
    refine ⟨⟨⟨⟨h1, ?_⟩, h3⟩, by omega⟩, ?_⟩
    · intro x hx
      rw [ast x hx, bst x (by omega)]
      exact h2 x hx
    · intro i hi
      have := h5 (a.hp + i) (by omega) (by omega)
      rw [← ahe (a.hp + i) (by omega) (by omega), ← bhe (a.hp + i) (by omega) (by omega)] at this
      rw [show a.hp - (M - a.heapLen) + i = a.hp + i - (M - a.heapLen) by omega,
          show b.hp - (M - b.heapLen) + i = a.hp + i - (M - b.heapLen) by omega]
      exact this

/-- `collect_rollback_data` + `rollback` against the specification "become the snapshot" (both code shapes) -/
theorem rollback_refines {M : Nat} {cur snap : Mem} {fc fs : Flat} (hc : Sim M cur fc) (hs : Sim M snap fs) :
    match cur.collectRollbackData M snap with
    | .error e => e = .RustPanic ∧ ¬ fc.sameAccessible M fs ∧
        (fs.hp < fc.hp ∨ (Gen.rollbackSlicesCurrentStackToSp = true ∧ fs.sl > fc.sl))
    | .ok none => fc.sameAccessible M fs
    | .ok (some d) => ¬ fc.sameAccessible M fs ∧
        ¬ (fs.hp < fc.hp ∨ (Gen.rollbackSlicesCurrentStackToSp = true ∧ fs.sl > fc.sl)) ∧
        ∃ m', cur.rollback M d = .ok m' ∧ Sim M m' fs := by
  have heq := eqAccessible_iff hc hs
  obtain ⟨⟨c1, c2, c3, c4⟩, csl, chp, cst, che⟩ := hc
  obtain ⟨⟨s1, s2, s3, s4⟩, ssl, shp, sst, she⟩ := hs
  unfold Mem.collectRollbackData
  by_cases e1 : cur.eqAccessible M snap = true
  · simp only [e1, if_true]
    exact heq.mp e1
  · have hne : ¬ fc.sameAccessible M fs := fun h => e1 (heq.mpr h)
    simp only [e1, if_false, Bool.false_eq_true, Mem.heapOffset]
    by_cases e2 : snap.hp < cur.hp
    · simp only [e2, if_true]
      exact ⟨trivial, hne, Or.inl (by omega)⟩
    · have e4 : ¬ snap.hp < M - cur.heapLen := by omega
      have e5 : ¬ snap.hp - (M - cur.heapLen) > cur.heapLen := by omega
      have e6 : ¬ snap.hp < M - snap.heapLen := by omega
      have e7 : ¬ snap.hp - (M - snap.heapLen) > snap.heapLen := by omega
      have hn : min (cur.heapLen - (snap.hp - (M - cur.heapLen))) (snap.heapLen - (snap.hp - (M - snap.heapLen))) = M - snap.hp := by omega
      obtain ⟨hp2, hhp2, hhp2a, _⟩ := applyChanges_getChanges (fun i => cur.heap (snap.hp - (M - cur.heapLen) + i))
        (fun i => snap.heap (snap.hp - (M - snap.heapLen) + i)) cur.heap snap.hp (M - cur.heapLen) (M - snap.hp) cur.heapLen
        (by omega) (by omega) (by intro i _; rfl)
      -- the stack part, in whichever shape the code has
      have hstack : ¬ (Gen.rollbackSlicesCurrentStackToSp = true ∧ snap.stackLen > cur.stackLen) →
          ∃ st2, applyChanges snap.stackLen 0 (if snap.stackLen > cur.stackLen then resize0 cur.stack cur.stackLen else cur.stack)
            (if Gen.rollbackSlicesCurrentStackToSp = true then getChanges cur.stack snap.stack 0 snap.stackLen
             else getChanges cur.stack snap.stack 0 (min snap.stackLen cur.stackLen) ++
               (if min snap.stackLen cur.stackLen < snap.stackLen then
                  getChanges (fun _ => 0) (fun i => snap.stack (min snap.stackLen cur.stackLen + i)) (min snap.stackLen cur.stackLen)
                    (snap.stackLen - min snap.stackLen cur.stackLen)
                else [])) = .ok st2 ∧ ∀ i, i < snap.stackLen → st2 i = snap.stack i := by
        intro hnr
        cases hflag : Gen.rollbackSlicesCurrentStackToSp with
        | true =>
          have e3 : ¬ snap.stackLen > cur.stackLen := fun h => hnr ⟨hflag, h⟩
          simp only [e3, if_false, if_true]
          obtain ⟨st2, hst2, hst2a, _⟩ := applyChanges_getChanges cur.stack snap.stack cur.stack 0 0 snap.stackLen snap.stackLen
            (Nat.le_refl _) (by omega) (by intro i _; simp)
          exact ⟨st2, hst2, fun i hi => by have := hst2a i hi; simpa using this⟩
        | false =>
          simp only [Bool.false_eq_true, if_false]
          exact stackChanges_fixed_apply cur.stack snap.stack cur.stackLen snap.stackLen
      by_cases e3 : Gen.rollbackSlicesCurrentStackToSp = true ∧ snap.stackLen > cur.stackLen
      · have : (Gen.rollbackSlicesCurrentStackToSp && decide (snap.stackLen > cur.stackLen)) = true := by
          simp [e3.1, e3.2]
        simp only [e2, this, if_true, if_false]
        exact ⟨trivial, hne, Or.inr ⟨e3.1, by omega⟩⟩
      · have : ¬ ((Gen.rollbackSlicesCurrentStackToSp && decide (snap.stackLen > cur.stackLen)) = true) := by
          simp only [Bool.and_eq_true, decide_eq_true_eq]; exact e3
        simp only [e2, this, e4, e5, e6, e7, if_false]
        refine ⟨hne, ?_, ?_⟩
        · rintro (h | ⟨h1, h2⟩)
          · omega
          · exact e3 ⟨h1, by omega⟩
        · obtain ⟨st2, hst2, hst2a⟩ := hstack e3
          unfold Mem.rollback
          simp only [e2, if_false, Mem.heapOffset]
          rw [hn, hst2, hhp2]
          refine ⟨_, rfl, ⟨c1, by dsimp only; omega, s3, s4⟩, ssl, shp, ?_, ?_⟩ <;> dsimp only
          · intro a ha
            rw [hst2a a ha]
            exact sst a ha
          · intro a ha ha'
            have := hhp2a (a - snap.hp) (by omega)
            rw [show snap.hp - (M - cur.heapLen) + (a - snap.hp) = a - (M - cur.heapLen) by omega,
                show snap.hp - (M - snap.heapLen) + (a - snap.hp) = a - (M - snap.heapLen) by omega] at this
            rw [this]
            exact she a ha ha'

end FuelVerif.Memory
