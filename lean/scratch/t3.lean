import FuelVerif.Model.Jump
import FuelVerif.Lemmas.Alu
namespace FuelVerif.Alu
open FuelVerif.Gen.AluArgs

theorem satAdd_eq_min (a b : Nat) : satAdd a b = min (a + b) (2 ^ 64 - 1) := by
  unfold satAdd; split <;> omega
theorem satMul4_eq_min (a : Nat) : satMul a instrSize = min (a * 4) (2 ^ 64 - 1) := by
  unfold satMul instrSize; split <;> omega

theorem jump_taken (a : JumpArgs) (r : Regs) (hc : a.condition = true) (t : Nat)
    (ht : jumpTarget a (r regIS) (r regPC) = .ok t) :
    jump a r = if t < vmMaxRam then (r.set regPC t, none) else (r, some .MemoryOverflow) := by
  simp only [jump, hc, ht, not_true_eq_false, if_false]
  by_cases h : t < vmMaxRam
  · rw [if_neg (by omega), if_pos h]
  · rw [if_pos (by omega), if_neg h]

theorem jump_abs_core (r : Regs) (dyn fixed : Nat) (c : Bool) :
    jump { mode := .RelativeIS, condition := c, dynamic := dyn, fixed := fixed } r =
      if c = false then (incPc r, none)
      else if r regIS + 4 * (dyn + fixed) < vmMaxRam then (r.set regPC (r regIS + 4 * (dyn + fixed)), none)
      else (r, some .MemoryOverflow) := by
  cases c
  · simp [jump]
  · rw [jump_taken _ r rfl (satAdd (r regIS) (satMul (satAdd dyn fixed) instrSize)) rfl]
    simp only [satAdd_eq_min, satMul4_eq_min, vmMaxRam]
    by_cases h : r regIS + 4 * (dyn + fixed) < 67108864
    · have : min (r regIS + min (min (dyn + fixed) (2 ^ 64 - 1) * 4) (2 ^ 64 - 1)) (2 ^ 64 - 1) = r regIS + 4 * (dyn + fixed) := by omega
      simp [this, h]
    · have : ¬ min (r regIS + min (min (dyn + fixed) (2 ^ 64 - 1) * 4) (2 ^ 64 - 1)) (2 ^ 64 - 1) < 67108864 := by omega
      simp [this, h]
end FuelVerif.Alu
