import FuelVerif.Lemmas.Alu
namespace FuelVerif.Alu
open FuelVerif.Gen.AluArgs

/-- outcome classification shared by every alu.rs helper with destination `a` -/
def HelperOk (r : Regs) (a : Nat) (o : Out) : Prop :=
  (o.2 = none ∧ 16 ≤ a ∧ ∃ d f e, o.1 = specOk r a d f e) ∨
  (∃ p, o.2 = some p ∧ p ≠ .HostPanic ∧ o.1 = r ∧ (a < 16 → p = .ReservedRegisterNotWritable)) ∨
  (o.2 = some .HostPanic ∧ 16 ≤ a)

theorem writeRegKey_cases (a : Nat) : (16 ≤ a ∧ writeRegKey a = .ok a) ∨ (a < 16 ∧ writeRegKey a = .error .ReservedRegisterNotWritable) := by
  by_cases h : 16 ≤ a
  · exact Or.inl ⟨h, writeRegKey_ok h⟩
  · exact Or.inr ⟨by omega, writeRegKey_err (by omega)⟩

theorem helperOk_capture (r : Regs) (a res : Nat) : HelperOk r a (aluCaptureOverflow r a res) := by
  rcases writeRegKey_cases a with ⟨ha, hk⟩ | ⟨ha, hk⟩
  · unfold aluCaptureOverflow; rw [hk]; simp only []
    split
    · exact Or.inr (Or.inl ⟨_, rfl, by decide, rfl, by omega⟩)
    · exact Or.inl ⟨rfl, ha, _, _, _, rfl⟩
  · unfold aluCaptureOverflow; rw [hk]
    exact Or.inr (Or.inl ⟨_, rfl, by decide, rfl, fun _ => rfl⟩)

theorem helperOk_error (r : Regs) (a : Nat) (f : Option Nat) (e : Bool) : HelperOk r a (aluError r a f e) := by
  rcases writeRegKey_cases a with ⟨ha, hk⟩ | ⟨ha, hk⟩
  · rw [aluError_spec r a f e ha]
    cases e <;> cases f <;> by_cases hu : isUnsafeMath (r regFLAG) = true <;> simp [hu, HelperOk, ha]
    all_goals first | exact ⟨_, _, _, rfl⟩ | omega
  · unfold aluError; rw [hk]
    exact Or.inr (Or.inl ⟨_, rfl, by decide, rfl, fun _ => rfl⟩)
end FuelVerif.Alu
