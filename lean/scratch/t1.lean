import FuelVerif.Model.Alu
namespace FuelVerif.Alu
open FuelVerif.Gen.AluArgs

theorem writeRegKey_ok {a : Nat} (h : 16 ≤ a) : writeRegKey a = .ok a := by
  simp [writeRegKey, regWRITABLE, h]
theorem writeRegKey_err {a : Nat} (h : a < 16) : writeRegKey a = .error .ReservedRegisterNotWritable := by
  simp [writeRegKey, regWRITABLE]; omega

/-- the specified successful outcome: `$of`, `$err`, destination written, `$pc` advanced -/
def specOk (r : Regs) (a dest of err : Nat) : Regs :=
  incPc (((r.set regOF of).set regERR err).set a dest)

theorem add_spec (g) (r : Regs) (a b c : Nat) (ha : 16 ≤ a) (hb : r b < 2 ^ 64) (hc : r c < 2 ^ 64) :
    execAlu g .ADD [a, b, c] r =
      if r b + r c < 2 ^ 64 ∨ isWrapping (r regFLAG) = true
      then (specOk r a ((r b + r c) % 2 ^ 64) ((r b + r c) / 2 ^ 64) 0, none)
      else (r, some .ArithmeticOverflow) := by
  simp only [execAlu, aluCaptureOverflow, writeRegKey_ok ha, u128Add, u64Max, specOk]
  generalize r b = x at *
  generalize r c = y at *
  have h1 : (x + y) % 2 ^ 128 = x + y := Nat.mod_eq_of_lt (by omega)
  rw [h1]
  have h2 : (x + y) / 2 ^ 64 % 2 ^ 64 = (x + y) / 2 ^ 64 := Nat.mod_eq_of_lt (by omega)
  rw [h2]
  by_cases hw : isWrapping (r regFLAG) = true <;> by_cases hs : x + y < 2 ^ 64 <;> simp [hw, hs] <;> omega
end FuelVerif.Alu
